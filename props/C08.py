# C08 — n-of-n distributed keys: joint decryption recovers the plaintext
import itertools
from props.util import *

TRUSTED = BASE_TRUSTED + ["ristretto under the group-law hypothesis (implementation-only runs)", "rayon build covered by C19"]
RULE = ("n in 1..16 trustees: share + proof (scripted RNG), verify_share, combine_pks in all orders for n<=4 (sampled above), "
        "joint_dec over all factor orders for n<=3, joint_dec_many over ciphertext lists of length 0..5 and 1100, 150 trustees once, exhaustive secrets "
        "for n<=2 on p=23; omitted / duplicated factor; every output compared with the Gallina model of the crate-private "
        "Keymaker (hook); battery: joint decryption returns the plaintext, the joint key is order independent")


def run(env):
    r = env.rng
    items = []
    plans = []
    for fl in "BM":
        ctx = "%s:23" % fl
        for a in range(11):
            plans.append((ctx, [a]))
            for b in range(0, 11, 1 if not env.quick else 3):
                plans.append((ctx, [a, b]))
        for pstr, ns in (("2039", [1, 2, 3, 4, 7, 150]), (str(P62), [1, 3, 16] if env.quick else list(range(1, 17))), ("2048", [2] if env.quick else [1, 3])):
            ctx2 = "%s:%s" % (fl, pstr); P_, q_, g_ = pq(ctx2)
            for n in ns:
                plans.append((ctx2, [r.randrange(q_) for _ in range(n)]))
    st1 = []
    # share-proof labels: ASCII, empty, NUL, non-UTF-8 byte sequences (lossy text conversions must not creep in), long
    LABELS = ["x:6b", "x:", "x:00", "x:fffe80", "x:c328", "x:" + "".join("%02x" % r.randrange(256) for _ in range(40))]
    for ctx, sks in plans:
        for sk in sks:
            st1.append({"ctx": ctx, "op": "km_share", "args": [str(sk), LABELS[len(st1) % len(LABELS)], script(r, 512)], "tag": "share"})
    o1 = env.harness(st1)
    k = 0
    st2 = []
    for ctx, sks in plans:
        P_, q_, g_ = pq(ctx)
        pks = []
        for sk in sks:
            c = st1[k]; o = o1[k]; k += 1
            pk, pf, draws, used = o
            items.append((c, ctx, "km_share_r", [c["args"][0], c["args"][1], draws[0]], [pk, pf]))
            pks.append(pk)
            st2.append({"ctx": ctx, "op": "km_verify_share", "args": [pk, pf, c["args"][1]], "_want": True, "tag": "verify_share"})
        orders = list(itertools.permutations(pks)) if len(pks) <= (3 if env.quick else 4) else [tuple(pks), tuple(reversed(pks)), tuple(r.sample(pks, len(pks)))]
        for od in orders:
            st2.append({"ctx": ctx, "op": "combine_pks", "args": [list(od)], "_grp": (ctx, tuple(sks)), "tag": "combine"})
    o2 = env.harness(st2)
    joint = {}
    for c, o in zip(st2, o2):
        items.append((c, c["ctx"], c["op"], c["args"], o))
        if c.get("_want") is True and o is not True:
            env.violation("share proof rejected on %s" % c["ctx"], {"kind": "battery", "case": c})
        if "_grp" in c:
            if c["_grp"] in joint and joint[c["_grp"]] != o:
                env.violation("joint key depends on the order of shares on %s" % c["ctx"], {"kind": "battery", "case": c, "out": [joint[c["_grp"]], o]})
            joint[c["_grp"]] = o
    st3 = []
    for ctx, sks in plans:
        P_, q_, g_ = pq(ctx)
        pk = joint[(ctx, tuple(sks))]
        L = r.choice([0, 1, 2, 5]) if len(sks) > 1 else 1
        if len(sks) == 3 and ctx.endswith(":2039"):
            L = 1100          # one long ciphertext list: joint_dec_many position by position far beyond any batch size
        ms = [str(rnd_member(r, ctx)) for _ in range(max(L, 1))]
        for m in ms:
            st3.append({"ctx": ctx, "op": "encrypt_r", "args": [pk, m, str(r.randrange(q_))], "_m": m, "_sks": sks, "_L": L, "tag": "encrypt"})
    o3 = env.harness(st3)
    st4 = []
    bygrp = {}
    for c, o in zip(st3, o3):
        items.append((c, c["ctx"], c["op"], c["args"], o))
        bygrp.setdefault((c["ctx"], tuple(c["_sks"])), []).append((c["_m"], o, c["_L"]))
        for sk in c["_sks"]:
            st4.append({"ctx": c["ctx"], "op": "decryption_factor", "args": [str(sk), o], "tag": "factor"})
    o4 = env.harness(st4)
    k = 0
    st5 = []
    for c, o in zip(st3, o3):
        ctx = c["ctx"]; P_, q_, g_ = pq(ctx)
        fs = []
        for sk in c["_sks"]:
            items.append((st4[k], ctx, "decryption_factor", st4[k]["args"], o4[k])); fs.append(o4[k]); k += 1
        c["_fs"] = fs
        orders = list(itertools.permutations(fs)) if len(fs) <= 3 else [tuple(fs), tuple(reversed(fs))]
        for od in orders:
            st5.append({"ctx": ctx, "op": "joint_dec", "args": [list(od), o], "_want": c["_m"], "tag": "joint_dec"})
        if len(fs) >= 2:
            st5.append({"ctx": ctx, "op": "joint_dec", "args": [fs[1:], o], "_notwant": c["_m"] if big(ctx) else None, "tag": "omit-trustee"})
            st5.append({"ctx": ctx, "op": "joint_dec", "args": [fs + fs[:1], o], "_notwant": c["_m"] if big(ctx) else None, "tag": "dup-trustee"})
    # lists, position by position
    k3 = 0
    for (ctx, sks), lst in bygrp.items():
        L = lst[0][2]
        cs = [o for (_, o, _) in lst][:L] if L else []
        rows = []
        for sk in sks:
            rows.append(None)
        st5.append({"ctx": ctx, "op": "joint_dec_many_prep", "args": [], "_skip": True, "_ctx": ctx, "_sks": sks, "_cs": cs, "_ms": [m for (m, _, _) in lst][:L]})
    prep = [c for c in st5 if c.get("_skip")]
    st5 = [c for c in st5 if not c.get("_skip")]
    stf = []
    for c in prep:
        for sk in c["_sks"]:
            for ct in c["_cs"]:
                stf.append({"ctx": c["_ctx"], "op": "decryption_factor", "args": [str(sk), ct], "tag": "factor"})
    of = env.harness(stf)
    kk = 0
    for c in prep:
        rows = []
        for sk in c["_sks"]:
            row = []
            for ct in c["_cs"]:
                row.append(of[kk]); kk += 1
            rows.append(row)
        st5.append({"ctx": c["_ctx"], "op": "joint_dec_many", "args": [rows, c["_cs"]], "_want": c["_ms"], "tag": "joint_dec_many(L=%d)" % len(c["_cs"])})
    o5 = env.harness(st5)
    for c, o in zip(st5, o5):
        items.append((c, c["ctx"], c["op"], c["args"], o))
        if "_want" in c and o != c["_want"]:
            env.violation("%s does not recover the plaintext on %s (n=%d): %s" % (c["op"], c["ctx"], len(c["args"][0]), str(o)[:60]), {"kind": "battery", "case": c, "out": o})
        if c.get("_notwant") is not None and o == c["_notwant"]:
            env.violation("joint decryption with %s still yields the plaintext on %s" % (c["tag"], c["ctx"]), {"kind": "battery", "case": c})
    # each trustee is ONE Keymaker value serving the whole ciphertext list (with a repeated ciphertext at the end): the rows it
    # releases must jointly decrypt every position, exactly as rows collected from fresh key holders do
    reuse = [c for c in prep if 2 <= len(c["_sks"]) <= 4 and 1 <= len(c["_cs"]) <= 5 and not c["_ctx"].endswith(":23")][:10]
    stq = []
    for c in reuse:
        cs2 = c["_cs"] + c["_cs"][:1]
        for sk in c["_sks"]:
            stq.append({"ctx": c["_ctx"], "op": "km_factor_seq", "args": [str(sk), cs2, "x:6b", script(r, 256 * len(cs2) + 512)], "tag": "keymaker-reuse"})
    oq = env.harness(stq)
    kq = 0; stj = []
    for c in reuse:
        cs2 = c["_cs"] + c["_cs"][:1]
        rows = []
        for sk in c["_sks"]:
            o = oq[kq]; kq += 1
            rows.append([x[0] for x in o] if isinstance(o, list) and all(isinstance(x, list) for x in o) else o)
        stj.append({"ctx": c["_ctx"], "op": "joint_dec_many", "args": [rows, cs2], "_want": c["_ms"] + c["_ms"][:1], "tag": "joint_dec_many(keymaker-reuse)"})
    for c, o in zip(stj, env.harness(stj)):
        if o != c["_want"]:
            env.violation("factors released by one Keymaker value per trustee for a ciphertext list do not jointly decrypt it on %s (n=%d): %s" % (c["ctx"], len(c["args"][0]), str(o)[:80]),
                          {"kind": "battery", "case": c, "out": o})
    fails = env.tie(items, "C08", shard=300)
    # ristretto
    sks = ["11", "22", "33"]
    pks = env.harness([{"ctx": "R", "op": "pk_of_sk", "args": [s], "tag": "ristretto"} for s in sks])
    j1 = env.harness([{"ctx": "R", "op": "combine_pks", "args": [pks]}, {"ctx": "R", "op": "combine_pks", "args": [list(reversed(pks))]}, {"ctx": "R", "op": "gpow", "args": ["5"]}])
    if j1[0] != j1[1]:
        env.violation("ristretto joint key order dependent", {"kind": "battery", "case": {"ctx": "R"}})
    ct = env.harness([{"ctx": "R", "op": "encrypt_r", "args": [j1[0], j1[2], "777"]}])[0]
    fs = env.harness([{"ctx": "R", "op": "decryption_factor", "args": [s, ct]} for s in sks])
    jd = env.harness([{"ctx": "R", "op": "joint_dec", "args": [fs, ct]}, {"ctx": "R", "op": "joint_dec", "args": [fs[:2], ct]}])
    if jd[0] != j1[2] or jd[1] == j1[2]:
        env.violation("ristretto joint decryption wrong", {"kind": "battery", "case": {"ctx": "R"}})
    if fails:
        env.tie_violation("C08", fails)


def big(ctx):
    s = ctx.split(":")[1]
    return s == "2048" or int(s) > 2 ** 60
