# Python-side assembly/parsing of wire objects for the multiplicative backends (used to build mutated
# and malformed inputs; never used as an oracle).
import struct


def int_bytes(fl, x):
    if fl == "B":
        return x.to_bytes(max(1, (x.bit_length() + 7) // 8), "little")
    return x.to_bytes((x.bit_length() + 7) // 8, "big")


def vec_u8(b):
    return struct.pack("<I", len(b)) + b


def ser_int(fl, x):
    return vec_u8(int_bytes(fl, int(x)))


def svec(items):
    return struct.pack("<I", len(items)) + b"".join(vec_u8(i) for i in items)


FIELDS_E = ["t1", "t2", "t3", "t41", "t42"]
FIELDS_X = ["s1", "s2", "s3", "s4"]


def proof_bytes(fl, pf):
    out = b"".join(ser_int(fl, pf[k]) for k in FIELDS_E)
    out += svec([ser_int(fl, x) for x in pf["t_hats"]])
    out += b"".join(ser_int(fl, pf[k]) for k in FIELDS_X)
    out += svec([ser_int(fl, x) for x in pf["s_hats"]])
    out += svec([ser_int(fl, x) for x in pf["s_primes"]])
    out += svec([ser_int(fl, x) for x in pf["cs"]])
    out += svec([ser_int(fl, x) for x in pf["c_hats"]])
    return out


class Rd:
    def __init__(self, b):
        self.b = b; self.i = 0

    def u32(self):
        v = struct.unpack_from("<I", self.b, self.i)[0]; self.i += 4; return v

    def vec(self):
        n = self.u32(); v = self.b[self.i:self.i + n]; self.i += n; return v

    def int(self, fl):
        v = self.vec()
        return int.from_bytes(v, "little" if fl == "B" else "big")

    def svec_int(self, fl):
        n = self.u32()
        out = []
        for _ in range(n):
            item = self.vec()
            out.append(Rd(item).int(fl))
        return out


def parse_proof(fl, b):
    r = Rd(b)
    pf = {}
    for k in FIELDS_E:
        pf[k] = r.int(fl)
    pf["t_hats"] = r.svec_int(fl)
    for k in FIELDS_X:
        pf[k] = r.int(fl)
    pf["s_hats"] = r.svec_int(fl)
    pf["s_primes"] = r.svec_int(fl)
    pf["cs"] = r.svec_int(fl)
    pf["c_hats"] = r.svec_int(fl)
    assert r.i == len(b)
    return pf


def hx(b):
    return "x:" + b.hex()


def unhx(s):
    return bytes.fromhex(s[2:])
