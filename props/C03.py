# C03 — honest shuffle proofs always verify (completeness)
import itertools
from props.util import *
from props import shuf

TRUSTED = BASE_TRUSTED + ["ristretto255 group laws (hypothesis of the generic theorem)"]
RULE = ("all N! permutations for N<=4 (quick) / N<=5 (thorough) on p=23 and 2039 through apply_permutation, library-drawn "
        "permutations for N in {1,2,3,8,(32,100)} at 16/62 bits and N<=2 at 2048 bits, labels empty/short/long, generator "
        "seeds empty/short/long, repeated ciphertexts and identity components; generators, shuffle outputs, proof bytes "
        "(same RNG draws) and the verifier's decision are compared with the Gallina model; verification also runs in a "
        "fresh process on re-serialised data; large shuffles N in {513,700,1025} (thorough: up to 4097) and ristretto N=520 on the "
        "implementation (sizes crossing power-of-two / batch boundaries)"
        " Added in session 3: labels at digest-size / power-of-two length boundaries; ristretto shuffles with identity components verified again after the wire round trip;")


from props.util import boundary_labels


def run(env):
    r = env.rng
    specs = []
    maxn = 4 if env.quick else 5
    for fl in "BM":
        for p in (23, 2039):
            ctx = "%s:%d" % (fl, p)
            for n in range(1, maxn + 1):
                perms = list(itertools.permutations(range(n)))
                if env.quick and p != 23 and len(perms) > 6:
                    perms = perms[:2] + [tuple(reversed(range(n)))] + r.sample(perms, 3)
                for k, pm in enumerate(perms):
                    specs.append({"ctx": ctx, "n": n, "perm": list(pm), "seed": ["x:", "x:61", "x:" + "7a" * 100][k % 3],
                                  "label": ["x:", "x:6c", "x:" + "00" * 200][k % 3], "dup": k % 4 == 1, "identity": k % 5 == 2})
    for fl in "BM":
        for pstr, ns in (("65267", [1, 2, 3, 8]), (str(P62), [1, 2, 8] + ([32, 100] if not env.quick else [20])), ("2048", [1] if env.quick else [1, 2])):
            for n in ns:
                specs.append({"ctx": "%s:%s" % (fl, pstr), "n": n, "perm": None, "seed": "x:" + r.randbytes(5).hex(), "label": "x:" + r.randbytes(n % 7).hex()})
    # labels whose LENGTH sits on a power-of-two / digest-size boundary (prover and verifier must treat them alike)
    for k, lab in enumerate(boundary_labels(env.quick)):
        specs.append({"ctx": ["B:2039", "M:23", "M:2039", "B:23"][k % 4], "n": 1 + k % 3, "perm": None, "seed": "x:", "label": lab})
    env.exhaustive = True
    items = shuf.make_statements(env, specs)
    live = shuf.prove(env, specs, items)
    cc = [shuf.check_case(sp) for sp in live]
    oc = env.harness(cc)
    for sp, c, o in zip(live, cc, oc):
        items.append((c, sp["ctx"], "check_proof", c["args"], o))
        if o is not True:
            env.violation("honest shuffle proof rejected on %s, N=%d, perm=%s: %s" % (sp["ctx"], sp["n"], sp["_perm"], o),
                          {"kind": "battery", "case": c, "out": o})
    # fresh process per verification, statement re-serialised
    for sp, c in list(zip(live, cc))[:: max(1, len(cc) // (6 if env.quick else 40))]:
        o = env.harness([c])[0]
        if o is not True:
            env.violation("honest proof rejected in a fresh process on %s" % sp["ctx"], {"kind": "battery", "case": c, "out": o})
    fails = env.tie(items, "C03", shard=60)
    # large shuffles (sizes that cross power-of-two / batch boundaries): implementation-side completeness,
    # one of them also tied to the model
    big_specs = []
    sizes = [(513, "B:2039"), (1025, "M:2039"), (700, "B:65267")] if env.quick else \
            [(257, "B:2039"), (513, "B:2039"), (513, "M:65267"), (1025, "M:2039"), (2049, "B:2039"), (4097, "M:2039"), (1500, "B:%d" % P62)]
    for n, ctx in sizes:
        big_specs.append({"ctx": ctx, "n": n, "perm": None, "seed": "x:62", "label": "x:" + r.randbytes(3).hex(), "dup": n % 2 == 0})
    big_items = shuf.make_statements(env, big_specs)
    big_live = shuf.prove(env, big_specs, big_items)
    bc = [shuf.check_case(sp, tag="check-largeN") for sp in big_live]
    for sp, c, o in zip(big_live, bc, env.harness(bc)):
        if o is not True:
            env.violation("honest shuffle proof rejected on %s, N=%d (library-drawn permutation): %s" % (sp["ctx"], sp["n"], o),
                          {"kind": "battery", "case": {"ctx": sp["ctx"], "n": sp["n"], "label": sp["label"]}, "out": o})
    # ristretto: prove and verify on the implementation
    rspecs = []
    for n in ([1, 2, 5, 520] if env.quick else [1, 2, 3, 10, 50, 260, 520, 1030]):
        rspecs.append(n)
    rc = [{"ctx": "R", "op": "generators", "args": [str(n + 1), "x:"], "tag": "ristretto"} for n in rspecs]
    gens = env.harness(rc)
    L = 2 ** 252 + 27742317777372353535851937790883648493
    pk = env.harness([{"ctx": "R", "op": "pk_of_sk", "args": ["77"]}])[0]
    for n, gs in zip(rspecs, gens):
        es = []
        els = env.harness([{"ctx": "R", "op": "gpow", "args": [str(r.randrange(L))]} for _ in range(2 * n)])
        es = [[els[2 * i], els[2 * i + 1]] for i in range(n)]
        # identity components and repeated ciphertexts (the neutral element is 32 zero bytes)
        ident = "x:" + "00" * 32
        if n >= 3:
            es[0] = [ident, ident]; es[1] = [es[1][0], ident]; es[-1] = es[2] if n > 3 else es[-1]
        elif n == 1 and len(rspecs) > 1 and rspecs.index(n) == 0:
            es[0] = [ident, ident]
        o = env.harness([{"ctx": "R", "op": "gen_shuffle", "args": [pk, es, script(r, 200 * n + 512)], "tag": "ristretto"}])[0]
        out, rs, perm = o[0], o[1], o[2]
        pr = env.harness([{"ctx": "R", "op": "gen_proof", "args": [pk, gs, es, out, rs, perm, "x:aa", script(r, 64 * (4 * n + 4) + 512)], "tag": "ristretto"}])[0]
        if not isinstance(pr, list):
            env.violation("ristretto gen_proof failed N=%d: %s" % (n, pr), {"kind": "battery", "case": {"n": n}}); continue
        ck = {"ctx": "R", "op": "check_proof", "args": [pk, gs, pr[0], es, out, "x:aa"], "tag": "ristretto"}
        if env.harness([ck])[0] is not True:
            env.violation("honest ristretto shuffle proof rejected, N=%d" % n, {"kind": "battery", "case": ck})
        # ... and after inputs, outputs, key and generators went through their wire formats (another process)
        if n <= 40:
            w = env.harness([{"ctx": "R", "op": "ser_vec_c", "args": [es], "tag": "ristretto-wire"}, {"ctx": "R", "op": "ser_vec_c", "args": [out], "tag": "ristretto-wire"},
                             {"ctx": "R", "op": "ser_vec_e", "args": [gs], "tag": "ristretto-wire"}, {"ctx": "R", "op": "ser_pk", "args": [pk], "tag": "ristretto-wire"}])
            d = env.harness([{"ctx": "R", "op": "de_vec_c", "args": [w[0]], "tag": "ristretto-wire"}, {"ctx": "R", "op": "de_vec_c", "args": [w[1]], "tag": "ristretto-wire"},
                             {"ctx": "R", "op": "de_vec_e", "args": [w[2]], "tag": "ristretto-wire"}, {"ctx": "R", "op": "de_pk", "args": [w[3]], "tag": "ristretto-wire"}])
            if d[0] != es or d[1] != out or d[2] != gs or d[3] != pk:
                env.violation("ristretto shuffle statement (N=%d, identity components included) does not survive serialization: %s" % (n, [str(x)[:60] for x in d]),
                              {"kind": "battery", "case": [{"ctx": "R", "op": "de_vec_c", "args": [w[0]]}, {"ctx": "R", "op": "de_vec_c", "args": [w[1]]}], "out": d})
            else:
                ck2 = {"ctx": "R", "op": "check_proof", "args": [d[3], d[2], pr[0], d[0], d[1], "x:aa"], "tag": "ristretto-wire"}
                if env.harness([ck2])[0] is not True:
                    env.violation("honest ristretto shuffle proof rejected after the serialization round trip, N=%d" % n, {"kind": "battery", "case": ck2})
    # ONE Shuffler value shuffling and proving several statements in a row (same size, different ciphertexts and labels):
    # every output and proof must be what a fresh Shuffler produces from the same RNG script, and must verify
    for ctx in ("B:2039", "M:%d" % P62, "R"):
        n = 3
        gens_ = env.harness([{"ctx": ctx, "op": "generators", "args": [str(n + 1), "x:7365"], "tag": "prover-reuse"}])[0]
        if ctx == "R":
            pk_ = pk
            mk = lambda: [[a_, b_] for a_, b_ in zip(*[iter(env.harness([{"ctx": "R", "op": "gpow", "args": [str(r.randrange(L))]} for _ in range(2 * n)]))] * 2)]
        else:
            P_, q_, g_ = pq(ctx); pk_ = str(pow(g_, 77, P_))
            mk = lambda: [[str(rnd_member(r, ctx)), str(rnd_member(r, ctx))] for _ in range(n)]
        steps = [[mk(), lab, script(r, 200 * n + 512), script(r, 100 * (4 * n + 4) + 512)] for lab in ("x:", "x:6162", "x:" + "41" * 64, "x:")]
        got = env.harness([{"ctx": ctx, "op": "shuffle_prove_seq", "args": [pk_, gens_, steps], "tag": "prover-reuse"}])[0]
        for k_, st_ in enumerate(steps):
            sh_ = env.harness([{"ctx": ctx, "op": "gen_shuffle", "args": [pk_, st_[0], st_[2]], "tag": "prover-reuse-ref"}])[0]
            pr_ = env.harness([{"ctx": ctx, "op": "gen_proof", "args": [pk_, gens_, st_[0], sh_[0], sh_[1], sh_[2], st_[1], st_[3]], "tag": "prover-reuse-ref"}])[0]
            want = [sh_[0], sh_[1], sh_[2], pr_[0]] if isinstance(pr_, list) else "err"
            if not isinstance(got, list) or got[k_] != want:
                env.violation("one Shuffler value proving a sequence of statements on %s: step %d differs from what a fresh Shuffler produces from the same RNG script" % (ctx, k_),
                              {"kind": "battery", "case": {"ctx": ctx, "op": "shuffle_prove_seq", "args": [pk_, gens_, steps[: k_ + 1]]}, "out": str(got)[:300]})
                break
            ck_ = {"ctx": ctx, "op": "check_proof", "args": [pk_, gens_, want[3], st_[0], want[0], st_[1]], "tag": "prover-reuse-verify"}
            if env.harness([ck_])[0] is not True:
                env.violation("proof #%d of a sequence made by one Shuffler value is rejected on %s" % (k_, ctx), {"kind": "battery", "case": ck_})
                break
    if fails:
        env.tie_violation("C03", fails)
