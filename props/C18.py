import json
# C18 — secret randomness is in-domain and fresh; the mix permutation is uniform
import itertools
from props.util import *
from props import shuf, wire

TRUSTED = BASE_TRUSTED + ["the OS entropy source (unpredictability, independence) is not modelled; freshness is observed on the implementation at 2048 bits / ristretto where an accidental repeat has probability < 2^-250",
                          "malachite's uniform_random_natural_inclusive_range(seed, a, b) is an opaque dependency: only the bounds strand passes are checked over thousands of seeds",
                          "rand 0.8's widening-multiply rejection is modelled byte for byte and compared; its exact uniformity is not proved"]
RULE = ("scripted-RNG runs: rnd_exp, rnd_plaintext, rnd on num-bigint for q=11,23,29 with EVERY top-bit pattern (exhaustive) and random "
        "scripts at 16/62/2048 bits, gen_permutation for N<=8 and N in {50,300} — value AND number of bytes consumed equal the "
        "Gallina byte-level model; malachite: 3000 (quick) / 20000 seeds on q=11 must cover exactly [0,q) / [0,q-2]; OS entropy: "
        "repeated identical calls give different ciphertexts / commitments / proofs, re-encryption exponents of one shuffle are "
        "distinct and non-zero, no commitment equals a public base, two proofs by one secret have different commitments (2048 bits, ristretto); "
        "every permutation of N<=4 is produced by some script (all N! reachable)"
        " Added in session 3: permutations of 2048/3000 items tied to the model and of 10000/70000 items against a reference sampler; four threads of one process must draw different randomness; q of 8 and 10 bits;")


def ref_fisher_yates(n, stream):
    """rand 0.8 SliceRandom::shuffle over a byte stream: for i = n-1 .. 1: j = gen_index(i+1); swap(i, j);
    gen_index = u32 widening-multiply rejection sampling. Returns (permutation, bytes consumed).
    (Reference re-implementation for sizes too large for the Gallina model; it is itself compared with the model on the
    sizes both can do.)"""
    perm = list(range(n)); pos = 0
    for i in range(n - 1, 0, -1):
        rng_ = i + 1
        lz = 32 - rng_.bit_length()
        zone = ((rng_ << lz) - 1) & 0xFFFFFFFF
        while True:
            v = int.from_bytes(stream[pos:pos + 4], "little"); pos += 4
            m = v * rng_
            if (m & 0xFFFFFFFF) <= zone:
                j = m >> 32
                break
        perm[i], perm[j] = perm[j], perm[i]
    return perm, pos


def run(env):
    r = env.rng
    cases = []
    # exhaustive top-bit patterns on tiny q (num-bigint): bits = bitlen(q); one u32 word per attempt
    for p in (23, 47, 59):
        q = (p - 1) // 2; bits = q.bit_length()
        for bound_op in ("rnd_exp", "rnd_plaintext", "rnd"):
            for pat in range(2 ** bits):
                for pat2 in (0, 2 ** bits - 1):
                    w1 = (pat << (32 - bits)) | r.randrange(2 ** (32 - bits)); w2 = (pat2 << (32 - bits)) | 5
                    sc = w1.to_bytes(4, "little") + w2.to_bytes(4, "little") + bytes(4) * 4 + r.randbytes(64)
                    cases.append({"ctx": "B:%d" % p, "op": bound_op, "args": [hexb(sc)], "tag": "exhaustive-bits"})
    env.exhaustive = True
    # q of 8 bits (p = 263: a bit length divisible by 8), 10 bits, 15 bits, 61 bits, 2047 bits
    for pstr, n in (("263", 40), ("2039", 20), ("65267", 40), (str(P62), 60), ("2048", 4 if env.quick else 30)):
        for _ in range(n):
            for op in ("rnd_exp", "rnd_plaintext", "rnd"):
                cases.append({"ctx": "B:%s" % pstr, "op": op, "args": [script(r, 2600 if pstr == "2048" else 256)], "tag": "random-script"})
    for n in list(range(0, 9)) + [50] + ([300] if not env.quick else []):
        for _ in range(6 if n <= 8 else 2):
            cases.append({"ctx": "B:23", "op": "gen_permutation", "args": [str(n), script(r, 8 * n + 256)], "tag": "gen_permutation"})
    # large lists (a sampler that switches strategy above a size threshold must still be Fisher-Yates on the stream):
    # tied to the Gallina model up to N = 3000, compared with the reference re-implementation below beyond that
    for n in ((2048, 3000) if env.quick else (1024, 2048, 3000, 4097)):
        cases.append({"ctx": "B:23", "op": "gen_permutation", "args": [str(n), script(r, 8 * n + 256)], "tag": "gen_permutation-large"})
    big_perm = [{"ctx": "B:23", "op": "gen_permutation", "args": [str(n), script(r, 6 * n + 256)], "tag": "gen_permutation-huge", "nontrivial": True}
                for n in ((10000, 70000) if env.quick else (10000, 70000, 200000))]
    for c, o in zip(big_perm, env.harness(big_perm)):
        want = ref_fisher_yates(int(c["args"][0]), bytes.fromhex(c["args"][1][2:]))
        if not isinstance(o, list) or o[0] != want[0] or o[1] != want[1]:
            env.violation("gen_permutation(N=%s) is not Fisher-Yates over the RNG stream (rand 0.8 index sampler): first difference at position %s"
                          % (c["args"][0], next((i for i, (a, b) in enumerate(zip(o[0], want[0])) if a != b), "?") if isinstance(o, list) else o),
                          {"kind": "battery", "case": {"ctx": c["ctx"], "op": c["op"], "args": [c["args"][0], c["args"][1][:200] + "..."]}})
    # rejection-heavy scripts for the index sampler: words just above/below the zone
    for n in (3, 5, 6, 7):
        for hi in (0xFFFFFFFF, 0xFFFFFFFE, 0x80000000, 0x55555555, 0):
            sc = b"".join((hi - k).to_bytes(4, "little") if hi >= k else bytes(4) for k in range(3)) * 8 + r.randbytes(128)
            cases.append({"ctx": "B:23", "op": "gen_permutation", "args": [str(n), hexb(sc)], "tag": "gen_permutation-boundary"})
    outs = env.harness(cases)
    items = []
    for c, o in zip(cases, outs):
        items.append((c, c["ctx"], c["op"], c["args"], o))
        if o in ("panic", "abort"):
            env.violation("%s panics under a scripted stream on %s" % (c["op"], c["ctx"]), {"kind": "battery", "case": c, "out": o}); continue
        P_, q_, g_ = pq(c["ctx"])
        if c["op"] == "rnd_exp" and not (0 <= int(o[0]) < q_):
            env.violation("rnd_exp returned %s outside [0,q) on %s" % (o[0], c["ctx"]), {"kind": "battery", "case": c, "out": o})
        if c["op"] == "rnd_plaintext" and not (0 <= int(o[0]) < q_ - 1):
            env.violation("rnd_plaintext returned %s outside [0,q-2] on %s" % (o[0], c["ctx"]), {"kind": "battery", "case": c, "out": o})
        if c["op"] == "rnd" and not (1 <= int(o[0]) < P_ and pow(int(o[0]), q_, P_) == 1):
            env.violation("rnd returned a non-member on %s" % c["ctx"], {"kind": "battery", "case": c, "out": o})
        if c["op"] == "gen_permutation" and isinstance(o, list) and c["args"][1].startswith("x:"):
            want = ref_fisher_yates(int(c["args"][0]), bytes.fromhex(c["args"][1][2:]))
            if len(bytes.fromhex(c["args"][1][2:])) >= want[1] and (o[0] != want[0] or o[1] != want[1]):
                env.violation("gen_permutation(N=%s) differs from Fisher-Yates over the RNG stream" % c["args"][0], {"kind": "battery", "case": c, "out": o})
        if c["op"] == "gen_permutation" and sorted(o[0]) != list(range(int(c["args"][0]))):
            env.violation("gen_permutation returned a non-permutation", {"kind": "battery", "case": c, "out": o})
    # all N! permutations reachable (N <= 4): search scripts
    for n in (2, 3, 4):
        seen = set(); tries = 0
        target = len(list(itertools.permutations(range(n))))
        while len(seen) < target and tries < 40:
            batch = [{"ctx": "B:23", "op": "gen_permutation", "args": [str(n), script(r, 64)], "tag": "reach"} for _ in range(50)]
            for o in env.harness(batch):
                seen.add(tuple(o[0]))
            tries += 1
        if len(seen) < target:
            env.violation("only %d of %d permutations of %d elements are ever produced" % (len(seen), target, n), {"kind": "battery", "case": {"n": n}})
    # malachite: value coverage over many seeds
    nseeds = 3000 if env.quick else 20000
    for op, lo, hi in (("rnd_exp", 0, 10), ("rnd_plaintext", 0, 9)):
        b = [{"ctx": "M:23", "op": op, "args": [hexb(r.randbytes(32))], "tag": "malachite-seeds"} for _ in range(nseeds)]
        vals = {}
        for c, o in zip(b, env.harness(b)):
            if not isinstance(o, list):
                env.violation("malachite %s %s" % (op, o), {"kind": "battery", "case": c, "out": o}, key="F4-%s-M" % op); break
            vals[int(o[0])] = vals.get(int(o[0]), 0) + 1
        if vals and (min(vals) < lo or max(vals) > hi):
            bad = [v for v in vals if v < lo or v > hi][0]
            env.violation("malachite %s returned %d outside [%d,%d] on M:23" % (op, bad, lo, hi), {"kind": "battery", "case": {"ctx": "M:23", "op": op}, "histogram": vals}, key="F4-%s-M" % op)
        elif vals and set(vals) != set(range(lo, hi + 1)):
            env.violation("malachite %s never returns some value of [%d,%d] in %d seeds" % (op, lo, hi, nseeds), {"kind": "battery", "case": {"ctx": "M:23", "op": op}, "histogram": vals})
    b = [{"ctx": "M:23", "op": "rnd", "args": [hexb(r.randbytes(32))], "tag": "malachite-seeds"} for _ in range(nseeds // 4)]
    for c, o in zip(b, env.harness(b)):
        if not isinstance(o, list):
            env.violation("malachite rnd() %s" % o, {"kind": "battery", "case": c, "out": o}, key="F4-rnd-M"); break
    # full range under OS entropy on small sets with q of 8 and 10 bits: 600 / 3000 draws from a uniform sampler miss
    # fewer than 1% / 6% of the values (thresholds far below: coverage >= 84% resp. 80%, no chance failure in practice)
    for ctx, ndraw, need in (("B:263", 600, 110), ("B:2039", 3000, 820), ("M:263", 600, 110)):
        P_, q_, g_ = pq(ctx)
        dr = env.harness([{"ctx": ctx, "op": "fresh_rnd_exp", "args": [str(ndraw)], "tag": "range-coverage"}])[0]
        vals = {int(x) for x in dr} if isinstance(dr, list) else set()
        if len(vals) < need or any(not (0 <= v < q_) for v in vals):
            env.violation("random exponents do not span [0, q) on %s: %d draws hit only %d of %d values (max %s)" % (ctx, ndraw, len(vals), q_, max(vals) if vals else None),
                          {"kind": "battery", "case": {"ctx": ctx, "op": "fresh_rnd_exp", "args": [str(ndraw)]}, "distinct": len(vals)})
    # freshness with OS entropy
    L = 2 ** 252 + 27742317777372353535851937790883648493
    for ctx in ("B:2048", "M:2048", "R"):
        if ctx == "R":
            pk, m = env.harness([{"ctx": "R", "op": "gpow", "args": ["5"]}, {"ctx": "R", "op": "gpow", "args": ["9"]}])
            g_s = env.harness([{"ctx": "R", "op": "gen", "args": []}])[0]; one = "x:" + "00" * 32
        else:
            P_, q_, g_ = pq(ctx); pk = str(pow(g_, 5, P_)); m = str(pow(g_, 9, P_)); g_s = str(g_); one = "1"
        o = env.harness([{"ctx": ctx, "op": "fresh_encrypt", "args": [pk, m], "tag": "fresh"}, {"ctx": ctx, "op": "fresh_rnd_exp", "args": ["50"], "tag": "fresh"}])
        if o[0][0] == o[0][1]:
            env.violation("two encryptions of the same plaintext are identical on %s" % ctx, {"kind": "battery", "case": {"ctx": ctx, "op": "fresh_encrypt", "args": [pk, m]}})
        if len(set(o[1])) != 50 or "0" in o[1]:
            env.violation("random exponents repeat or are zero on %s" % ctx, {"kind": "battery", "case": {"ctx": ctx, "op": "fresh_rnd_exp", "args": ["50"]}})
        # exponent transport: two calls differ, and on ristretto the two halves (two ciphertexts) use different randomness
        ee = env.harness([{"ctx": ctx, "op": "fresh_encrypt_exp", "args": ["12345", pk], "tag": "fresh"}])[0]
        if isinstance(ee, list):
            if ee[0] == ee[1]:
                env.violation("two exponent-transport encryptions of the same exponent are identical on %s" % ctx, {"kind": "battery", "case": {"ctx": ctx, "op": "fresh_encrypt_exp"}})
            if ctx == "R":
                b = bytes.fromhex(ee[0][2:])
                if len(b) == 4 + 128 and b[4 + 32:4 + 64] == b[4 + 96:4 + 128]:
                    env.violation("ristretto encrypt_exp encrypts both halves of the exponent with the same randomness (equal g^r components)",
                                  {"kind": "battery", "case": {"ctx": ctx, "op": "fresh_encrypt_exp", "out": ee[0]}})
        else:
            env.violation("encrypt_exp failed with OS entropy on %s: %s" % (ctx, ee), {"kind": "battery", "case": {"ctx": ctx}})
        # every kind of sigma proof, twice by the same secret (one Zkp value and fresh ones): all ten commitments distinct
        sg = env.harness([{"ctx": ctx, "op": "fresh_sigma", "args": ["5", m], "tag": "fresh"}])[0]
        if not isinstance(sg, list) or len(set(sg)) != len(sg):
            env.violation("sigma proofs by the same secret share a nonce (equal commitments among schnorr/cp/popk/decryption proofs) on %s" % ctx,
                          {"kind": "battery", "case": {"ctx": ctx, "op": "fresh_sigma"}, "out": sg})
        elif any(c in (g_s, pk, one) for c in sg):
            env.violation("a sigma-proof commitment equals a public base on %s" % ctx, {"kind": "battery", "case": {"ctx": ctx, "op": "fresh_sigma"}, "out": sg})
        # the same on several threads of one process (a per-thread generator must not replay another thread's stream)
        th = env.harness([{"ctx": ctx, "op": "fresh_threads", "args": ["4", pk, m, "5"], "tag": "fresh-threads"}])[0]
        if not isinstance(th, list) or any(not isinstance(t, list) for t in th):
            env.violation("drawing randomness on several threads fails on %s: %s" % (ctx, str(th)[:200]), {"kind": "battery", "case": {"ctx": ctx, "op": "fresh_threads", "args": ["4", pk, m, "5"]}})
        else:
            exps = [x for t in th for x in t[0]]; cts = [json.dumps(t[1]) for t in th]; coms = [t[2] for t in th]
            if len(set(exps)) != len(exps) or len(set(cts)) != len(cts) or len(set(coms)) != len(coms):
                env.violation("threads of one process draw the same randomness on %s (equal exponents / ciphertexts / proof commitments across threads)" % ctx,
                              {"kind": "battery", "case": {"ctx": ctx, "op": "fresh_threads", "args": ["4", pk, m, "5"]}, "out": th})
        # two proofs by the same secret: different commitments and (hence) unrelated responses; commitment never a public base
        prf = env.harness([{"ctx": ctx, "op": "schnorr_prove", "args": ["5", pk, None, "x:", "x:"], "tag": "fresh"} for _ in range(2)])
        # note: an empty script installs a scripted stream (SplitMix continuation): use the unscripted op set instead
        sh = env.harness([{"ctx": ctx, "op": "fresh_shuffle", "args": [pk, [[m, pk], [pk, m], [m, m]]], "tag": "fresh"}])[0]
        if isinstance(sh, list):
            rs = sh[1]
            if len(set(rs)) != len(rs) or "0" in rs:
                env.violation("re-encryption exponents of one shuffle repeat or are zero on %s" % ctx, {"kind": "battery", "case": {"ctx": ctx}})
            pfs = sh[3]
            if pfs[0] == pfs[1]:
                env.violation("two shuffle proofs of the same statement are identical on %s" % ctx, {"kind": "battery", "case": {"ctx": ctx}})
            coms = sh[4]
            if coms[0][0] == coms[1][0]:
                env.violation("two proofs by the same secret share a nonce (equal commitments) on %s" % ctx, {"kind": "battery", "case": {"ctx": ctx}})
            if coms[0][0] in (g_s, pk, one):
                env.violation("a published commitment equals a public base on %s" % ctx, {"kind": "battery", "case": {"ctx": ctx}})
    fails = env.tie(items, "C18", shard=400)
    if fails:
        env.tie_violation("C18", fails)
