# C14 — plaintext encoding is an injective, invertible map into the group
from props.util import *

TRUSTED = BASE_TRUSTED + [
    "ristretto: totality of `encode` on all 30-byte strings is not provable here (each candidate is a valid point with probability ~1/4); exercised on the implementation only",
    "malachite's uniform_random_natural_inclusive_range is an opaque dependency: only the bounds strand passes are checked (results must be encodable)",
]
RULE = ("encode for every m in 0..q+2 and decode for every group member on all small parameter sets (both backends), each "
        "compared with the Gallina model; boundary values 0,1,q-3,q-2 | q-1,q,q+1,p,2^2048 and random at 62/2048 bits; "
        "serialization of every encoded element; random plaintexts / elements from the library's own samplers under "
        "scripted RNG (num-bigint sampler compared with the byte-level model) must be encodable; ristretto boundary strings"
        " Added in session 3: encode -> wire -> decode with parameter sets and ristretto interleaved in one process;")


def run(env):
    r = env.rng
    items = []
    smalls = [23, 47, 59, 83] if env.quick else SMALL[:-1]
    for p in smalls:
        q = (p - 1) // 2
        for fl in "BM":
            ctx = "%s:%d" % (fl, p)
            c1 = [{"ctx": ctx, "op": "encode", "args": [str(m)], "tag": "exh-encode"} for m in range(q + 3)]
            c1 += [{"ctx": ctx, "op": "decode", "args": [str(e)], "tag": "exh-decode"} for e in members(p)]
            o1 = env.harness(c1)
            items += [(c, ctx, c["op"], c["args"], o) for c, o in zip(c1, o1)]
            seen = {}
            c2 = []
            for m in range(q + 3):
                o = o1[m]
                if m < q - 1:
                    if o in ("err", "panic"):
                        env.violation("encode(%d) refused on %s" % (m, ctx), {"kind": "battery", "case": c1[m], "out": o}); continue
                    if o in seen:
                        env.violation("encode not injective on %s: %d and %d -> %s" % (ctx, seen[o], m, o), {"kind": "battery", "case": [c1[seen[o]], c1[m]]})
                    seen[o] = m
                    if int(o) not in set(members(p)):
                        env.violation("encode(%d)=%s is not a group member on %s" % (m, o, ctx), {"kind": "battery", "case": c1[m]})
                    c2.append({"ctx": ctx, "op": "decode", "args": [o], "_m": m, "_src": c1[m], "tag": "roundtrip"})
                    c2.append({"ctx": ctx, "op": "ser_e", "args": [o], "_e": o, "_src": c1[m], "tag": "wire"})
                elif o != "err":
                    env.violation("encode(%d) outside the plaintext space must be an error on %s, got %s" % (m, ctx, o), {"kind": "battery", "case": c1[m], "out": o})
            o2 = env.harness(c2)
            c3 = []
            for c, o in zip(c2, o2):
                items.append((c, ctx, c["op"], c["args"], o))
                if c["tag"] == "roundtrip" and o != str(c["_m"]):
                    env.violation("decode(encode(%d)) = %s on %s" % (c["_m"], o, ctx), {"kind": "battery", "case": c["_src"], "out": o})
                if c["tag"] == "wire":
                    c3.append({"ctx": ctx, "op": "de_e", "args": [o], "_e": c["_e"], "_src": c["_src"], "tag": "wire"})
            for c, o in zip(c3, env.harness(c3)):
                items.append((c, ctx, c["op"], c["args"], o))
                if o != c["_e"]:
                    env.violation("encoded element does not survive serialization on %s" % ctx, {"kind": "battery", "case": c["_src"], "out": o})
            # library samplers under scripted RNG: every random plaintext must be encodable, rnd() must not panic
            c4 = []
            nscripts = 60 if env.quick else 400
            for _ in range(nscripts):
                # 512 bytes = at least 64 sampling attempts on the sets up to 64 bits (the Gallina literal of a 4 kB script costs
                # ~20 MB of coqc memory per case, 8 GB per 400-case shard)
                sc = script(r, 4096 if ctx.endswith("2048") else 512)
                c4.append({"ctx": ctx, "op": "rnd_plaintext", "args": [sc], "tag": "sampler"})
                c4.append({"ctx": ctx, "op": "rnd", "args": [sc], "tag": "sampler"})
            o4 = env.harness(c4)
            c5 = []
            for c, o in zip(c4, o4):
                if fl == "B":
                    items.append((c, ctx, c["op"], c["args"], o))
                if c["op"] == "rnd":
                    if not isinstance(o, list):
                        env.violation("rnd() %s on %s (flavor %s)" % (o, ctx, fl), {"kind": "battery", "case": c, "out": o},
                                      key="F4-rnd-%s" % fl)
                    elif int(o[0]) not in set(members(p)):
                        env.violation("rnd() returned a non-member %s on %s" % (o[0], ctx), {"kind": "battery", "case": c, "out": o})
                else:
                    if not isinstance(o, list):
                        env.violation("rnd_plaintext() %s on %s" % (o, ctx), {"kind": "battery", "case": c, "out": o}); continue
                    c5.append({"ctx": ctx, "op": "encode", "args": [o[0]], "_src": c, "tag": "sampler"})
            for c, o in zip(c5, env.harness(c5)):
                if o in ("err", "panic"):
                    env.violation("rnd_plaintext() returned %s on %s, which encode refuses (plaintext space is [0,%d])" % (c["args"][0], ctx, q - 2),
                                  {"kind": "battery", "case": [c["_src"], c], "out": o}, key="F4-rnd_plaintext-%s" % fl)
                    break
    env.exhaustive = True
    for pstr in (str(P62), "2048"):
        for fl in "BM":
            ctx = "%s:%s" % (fl, pstr)
            p, q, g = pq(ctx)
            ok = [0, 1, q - 3, q - 2] + [r.randrange(q - 1) for _ in range(3 if env.quick else 30)]
            bad = [q - 1, q, q + 1, p, 2 ** 2048]
            if pstr == "2048" and env.quick:
                ok = [0, q - 2, r.randrange(q - 1)]
            c1 = [{"ctx": ctx, "op": "encode", "args": [str(m)], "_m": m, "_ok": True, "tag": "boundary"} for m in ok]
            c1 += [{"ctx": ctx, "op": "encode", "args": [str(m)], "_m": m, "_ok": False, "tag": "boundary"} for m in bad]
            o1 = env.harness(c1)
            c2 = []
            for c, o in zip(c1, o1):
                items.append((c, ctx, c["op"], c["args"], o))
                if c["_ok"] and o in ("err", "panic"):
                    env.violation("encode(%s..) refused on %s" % (c["args"][0][:24], ctx), {"kind": "battery", "case": c, "out": o})
                elif not c["_ok"] and o != "err":
                    env.violation("encode of out-of-space plaintext %s.. returned %s on %s" % (c["args"][0][:24], str(o)[:24], ctx), {"kind": "battery", "case": c, "out": o})
                elif c["_ok"]:
                    c2.append({"ctx": ctx, "op": "decode", "args": [o], "_m": c["_m"], "_src": c, "tag": "boundary"})
            for c, o in zip(c2, env.harness(c2)):
                items.append((c, ctx, c["op"], c["args"], o))
                if o != str(c["_m"]):
                    env.violation("decode(encode(m)) != m on %s" % ctx, {"kind": "battery", "case": c["_src"], "out": o})
    # encode -> wire -> decode with several parameter sets and both backends interleaved in ONE process (two orders)
    for order in (["B:2048", "B:47", "M:47", "B:23", "B:65267", "M:2048", "B:%d" % P62, "M:23", "R"],
                  ["R", "M:23", "B:23", "B:47", "M:%d" % P62, "B:65267", "B:2048", "M:47", "M:2048"]):
        mix = []
        for ctx in order * 2:
            if ctx == "R":
                mix.append({"ctx": "R", "op": "encode", "args": [hexb(r.choice([bytes(30), b"\xff" * 30, r.randbytes(30)]))], "tag": "mixed-sets"})
            else:
                P_, q_, g_ = pq(ctx)
                mix.append({"ctx": ctx, "op": "encode", "args": [str(r.choice([0, 1, 2, 3, 4, q_ - 2, r.randrange(q_ - 1)]))], "tag": "mixed-sets"})
        e1 = env.harness(mix)
        s1 = env.harness([{"ctx": c["ctx"], "op": "ser_e", "args": [o], "tag": "mixed-sets"} for c, o in zip(mix, e1)])
        d1 = env.harness([{"ctx": c["ctx"], "op": "de_e", "args": [o], "tag": "mixed-sets"} for c, o in zip(mix, s1)])
        p1 = env.harness([{"ctx": c["ctx"], "op": "decode", "args": [o], "tag": "mixed-sets"} if o not in ("err", "panic", "de_err") else {"ctx": c["ctx"], "op": "gen", "args": []} for c, o in zip(mix, d1)])
        for c, oe, od, op_ in zip(mix, e1, d1, p1):
            if od != oe or str(op_) != str(c["args"][0]):
                env.violation("encode(%s) does not survive serialization on %s when several parameter sets are used in one process (order %s...): element %s decodes to %s, plaintext %s"
                              % (str(c["args"][0])[:40], c["ctx"], order[:3], str(oe)[:40], str(od)[:40], str(op_)[:40]), {"kind": "battery", "case": c, "out": [oe, od, op_]})
                break
    fails = env.tie(items, "C14", shard=400)
    # ristretto
    pts = ["00" * 30, "ff" * 30] + [(bytes([1 << (i % 8) if j == i // 8 else 0 for j in range(30)])).hex() for i in range(0, 240, 17 if env.quick else 1)]
    pts += [r.randbytes(30).hex() for _ in range(20 if env.quick else 300)]
    rc = [{"ctx": "R", "op": "encode", "args": ["x:" + pt], "_pt": pt, "tag": "ristretto"} for pt in pts]
    ro = env.harness(rc)
    rc2 = []
    seen = {}
    for c, o in zip(rc, ro):
        if not (isinstance(o, str) and o.startswith("x:")):
            env.violation("ristretto encode failed for %s: %s" % (c["_pt"], o), {"kind": "battery", "case": c, "out": o}); continue
        if o in seen and seen[o] != c["_pt"]:
            env.violation("ristretto encode not injective", {"kind": "battery", "case": c})
        seen[o] = c["_pt"]
        rc2.append({"ctx": "R", "op": "decode", "args": [o], "_pt": c["_pt"], "_src": c, "tag": "ristretto"})
        rc2.append({"ctx": "R", "op": "de_e", "args": [o], "_e": o, "_src": c, "tag": "ristretto"})
    for c, o in zip(rc2, env.harness(rc2)):
        if c["op"] == "decode" and o != "x:" + c["_pt"]:
            env.violation("ristretto decode(encode(x)) != x for %s" % c["_pt"], {"kind": "battery", "case": c["_src"], "out": o})
        if c["op"] == "de_e" and o != c["_e"]:
            env.violation("ristretto encoded plaintext does not survive serialization", {"kind": "battery", "case": c["_src"], "out": o})
    if fails:
        env.tie_violation("C14", fails)
