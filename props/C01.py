# C01 — ElGamal decrypt inverts encrypt (all variants), multiplicative backends + ristretto battery
from props.util import *

TRUSTED = BASE_TRUSTED + [
    "ristretto255: C01_ristretto_roundtrip is proved about the executable curve model of Model/Ristretto.v with no group-law hypothesis (Proofs/RistrettoGroup.v, Base/Edwards.v); the model is tied to curve25519-dalek by correspondence on every ristretto case; RFC 9496 ENCODE/DECODE and the 30-byte plaintext embedding are executed and tied, not proved",
]
RULE = ("exhaustive (sk, m, r) over the plaintext space of p=23 (quick) / 23,47,59 (thorough) on both multiplicative "
        "backends: encode, encrypt_with_randomness, decrypt, decode each compared with the Gallina model; scripted-RNG "
        "runs of encrypt / encrypt_exponential / encrypt_and_pok / decrypt_and_prove / encrypt_exp / decrypt_exp with "
        "boundary and random operands at 16, 62 and 2048 bits; ciphertext/key serialization in the loop; ristretto "
        "round trips with boundary plaintexts; non-trivial = distinct (ctx, op, args)"
        " Added in session 3: several (backend, parameter set) pairs interleaved in ONE process through the wire format, two orders;")


def run(env):
    r = env.rng
    fails = []
    # ---------------- exhaustive small sets
    smalls = [23] if env.quick else [23, 47, 59]
    for p in smalls:
        q = (p - 1) // 2
        for fl in "BM":
            ctx = "%s:%d" % (fl, p)
            c1 = [{"ctx": ctx, "op": "pk_of_sk", "args": [str(sk)], "tag": "exh"} for sk in range(q)]
            c1 += [{"ctx": ctx, "op": "encode", "args": [str(m)], "tag": "exh"} for m in range(q + 3)]
            o1 = env.harness(c1)
            items = [(c, ctx, c["op"], c["args"], o) for c, o in zip(c1, o1)]
            pks = o1[:q]; encs = o1[q:]
            for m in range(q + 3):
                if (m < q - 1) != (encs[m] != "err"):
                    env.violation("encode(%d) on %s: accepted=%s but plaintext space is [0,%d]" % (m, ctx, encs[m] != "err", q - 2),
                                  {"kind": "battery", "case": c1[q + m], "out": encs[m]})
            c2 = []
            for sk in range(q):
                for m in range(q - 1):
                    if encs[m] in ("err", "panic"): continue
                    for rr in range(q):
                        c2.append({"ctx": ctx, "op": "encrypt_r", "args": [pks[sk], encs[m], str(rr)], "tag": "exh", "_sk": sk, "_m": m})
            o2 = env.harness(c2)
            items += [(c, ctx, c["op"], c["args"], o) for c, o in zip(c2, o2)]
            c3 = [{"ctx": ctx, "op": "decrypt", "args": [str(c["_sk"]), o], "tag": "exh", "_m": c["_m"]} for c, o in zip(c2, o2)]
            o3 = env.harness(c3)
            items += [(c, ctx, c["op"], c["args"], o) for c, o in zip(c3, o3)]
            c4 = [{"ctx": ctx, "op": "decode", "args": [o], "tag": "exh", "_m": c["_m"], "_src": c} for c, o in zip(c3, o3) if o != "panic"]
            o4 = env.harness(c4)
            items += [(c, ctx, c["op"], c["args"], o) for c, o in zip(c4, o4)]
            for c, o in zip(c4, o4):
                if o != str(c["_m"]):
                    env.violation("round trip broken on %s: plaintext %d came back as %s" % (ctx, c["_m"], o),
                                  {"kind": "battery", "case": c["_src"], "decoded": o})
                    break
            fails += env.tie(items, "C01-exhaustive-%s" % ctx, shard=1500)
    env.exhaustive = True
    # ---------------- scripted / boundary at larger sizes
    allbig = []
    sizes = [("65267", 6 if env.quick else 40), (str(P62), 8 if env.quick else 60), ("2048", 1 if env.quick else 6)]
    for pstr, n in sizes:
        for fl in "BM":
            ctx = "%s:%s" % (fl, pstr)
            p, q, g = pq(ctx)
            trip = [(0, 0, 0), (1, 1, 1), (q - 1, q - 2, q - 1), (q - 1, 0, 1), (1, q - 3, 0)] if pstr != "2048" else ([] if env.quick else [(q - 1, q - 2, q - 1)])
            trip += [(r.randrange(q), r.randrange(q - 1), r.randrange(q)) for _ in range(n)]
            c1 = []
            for sk, m, rr in trip:
                c1.append({"ctx": ctx, "op": "pk_of_sk", "args": [str(sk)], "tag": "big"})
                c1.append({"ctx": ctx, "op": "encode", "args": [str(m)], "tag": "big"})
            for m in (q - 1, q, q + 1, p, 2 ** 2048):
                c1.append({"ctx": ctx, "op": "encode", "args": [str(m)], "tag": "refuse"})
            o1 = env.harness(c1)
            items = [(c, ctx, c["op"], c["args"], o) for c, o in zip(c1, o1)]
            for c, o in zip(c1, o1):
                if c["tag"] == "refuse" and o != "err":
                    env.violation("encode(%s) on %s must be refused, got %s" % (c["args"][0][:20], ctx, o), {"kind": "battery", "case": c, "out": o})
            c2 = []
            for i, (sk, m, rr) in enumerate(trip):
                pk, e = o1[2 * i], o1[2 * i + 1]
                if e in ("err", "panic"): continue
                sc = script(r, 2048)
                c2.append({"ctx": ctx, "op": "encrypt_r", "args": [pk, e, str(rr)], "tag": "big", "_sk": sk, "_m": m, "_e": e})
                c2.append({"ctx": ctx, "op": "encrypt", "args": [pk, e, sc], "tag": "scripted", "_sk": sk, "_m": m, "_e": e})
                c2.append({"ctx": ctx, "op": "encrypt_exponential", "args": [pk, str(m), sc], "tag": "scripted", "_sk": sk, "_m": m})
                c2.append({"ctx": ctx, "op": "encrypt_and_pok", "args": [pk, e, hexb(r.randbytes(r.choice([0, 1, 40]))), sc], "tag": "scripted", "_sk": sk, "_m": m, "_e": e})
                c2.append({"ctx": ctx, "op": "encrypt_exp", "args": [str(m), pk, sc], "tag": "scripted", "_sk": sk, "_m": m})
            c2.append({"ctx": ctx, "op": "encrypt_exp", "args": [str(q - 1), o1[0], script(r, 2048)], "tag": "refuse", "_sk": 0, "_m": q - 1})
            o2 = env.harness(c2)
            c3 = []
            for c, o in zip(c2, o2):
                op = c["op"]
                if op == "encrypt_r":
                    items.append((c, ctx, op, c["args"], o))
                    c3.append({"ctx": ctx, "op": "decrypt", "args": [str(c["_sk"]), o], "_want": c["_e"], "tag": "big"})
                    c3.append({"ctx": ctx, "op": "ser_c", "args": [o], "tag": "wire", "_ct": o, "_sk": c["_sk"], "_want": c["_e"]})
                    # determinism: same inputs again
                    c3.append({"ctx": ctx, "op": "encrypt_r", "args": c["args"], "_same": o, "tag": "determinism"})
                elif op == "encrypt":
                    if not isinstance(o, list):
                        env.violation("encrypt failed on %s: %s" % (ctx, o), {"kind": "battery", "case": c}); continue
                    items.append((c, ctx, "encrypt_r", c["args"][:2] + o[1], o[0]))
                    c3.append({"ctx": ctx, "op": "decrypt", "args": [str(c["_sk"]), o[0]], "_want": c["_e"], "tag": "big"})
                elif op == "encrypt_exponential":
                    items.append((c, ctx, "encrypt_exponential_r", c["args"][:2] + o[1], o[0]))
                    c3.append({"ctx": ctx, "op": "decrypt", "args": [str(c["_sk"]), o[0]], "_want_gpow": c["_m"], "tag": "big"})
                elif op == "encrypt_and_pok":
                    if not isinstance(o, list):
                        env.violation("encrypt_and_pok failed on %s: %s" % (ctx, o), {"kind": "battery", "case": c}); continue
                    items.append((c, ctx, "encrypt_and_pok_r", c["args"][:3] + o[3], [o[0], o[1]]))
                    if o[2] != o[3][0]:
                        env.violation("encrypt_and_pok returns randomness %s but used draw %s" % (o[2], o[3][0]), {"kind": "battery", "case": c})
                    c3.append({"ctx": ctx, "op": "popk_verify", "args": [o[0][0], o[0][1], o[1], c["args"][2]], "_want": True, "tag": "big"})
                    c3.append({"ctx": ctx, "op": "decrypt", "args": [str(c["_sk"]), o[0]], "_want": c["_e"], "tag": "big"})
                elif op == "encrypt_exp":
                    if c["tag"] == "refuse":
                        if o != "err":
                            env.violation("encrypt_exp(q-1) must report an error on %s, got %s" % (ctx, str(o)[:80]), {"kind": "battery", "case": c})
                        items.append((c, ctx, "encrypt_exp_r", [c["args"][0], c["args"][1], "0"], o))
                        continue
                    if not isinstance(o, list):
                        env.violation("encrypt_exp failed on %s for in-range exponent: %s" % (ctx, o), {"kind": "battery", "case": c}); continue
                    items.append((c, ctx, "encrypt_exp_r", [c["args"][0], c["args"][1]] + o[1][:1], o[0]))
                    c3.append({"ctx": ctx, "op": "decrypt_exp", "args": [o[0], str(c["_sk"])], "_want": str(c["_m"]), "tag": "wire"})
            o3 = env.harness(c3)
            c4 = []
            for c, o in zip(c3, o3):
                if c["op"] == "ser_c":
                    items.append((c, ctx, "ser_c", c["args"], o))
                    c4.append({"ctx": ctx, "op": "de_c", "args": [o], "_ct": c["_ct"], "tag": "wire"})
                    continue
                if "_same" in c:
                    if o != c["_same"]:
                        env.violation("encrypt_with_randomness is not deterministic on %s" % ctx, {"kind": "battery", "case": c})
                    continue
                items.append((c, ctx, c["op"], c["args"], o))
                if "_want" in c and o != c["_want"]:
                    env.violation("%s on %s returned %s, expected %s" % (c["op"], ctx, str(o)[:60], str(c["_want"])[:60]), {"kind": "battery", "case": c, "out": o})
                if "_want_gpow" in c:
                    c4.append({"ctx": ctx, "op": "gpow", "args": [str(c["_want_gpow"])], "_eq": o, "tag": "big"})
            o4 = env.harness(c4)
            for c, o in zip(c4, o4):
                items.append((c, ctx, c["op"], c["args"], o))
                if "_eq" in c and o != c["_eq"]:
                    env.violation("exponential decryption on %s is not g^m" % ctx, {"kind": "battery", "case": c})
                if "_ct" in c and o != c["_ct"]:
                    env.violation("ciphertext does not survive serialization on %s" % ctx, {"kind": "battery", "case": c, "out": o})
            # homomorphic product on implementation outputs
            encs = [(c, o) for c, o in zip(c2, o2) if c["op"] == "encrypt_r" and isinstance(o, list)][: (3 if ctx.endswith("2048") else 30)]
            # second ciphertext under the same key: an encryption of the generator with randomness 3 (and the ciphertext itself)
            seconds = env.harness([{"ctx": ctx, "op": "encrypt_r", "args": [ca["args"][0], str(g), "3"], "tag": "homomorphic"} for ca, _ in encs])
            pairs = []
            for (ca, oa), ob in zip(encs, seconds):
                pairs.append((ca, oa, ob, str(g)))
                pairs.append((ca, oa, oa, ca["_e"]))
            c5 = []
            for ca, oa, ob, eb in pairs:
                c5.append({"ctx": ctx, "op": "emulp", "args": [oa[0], ob[0]], "tag": "homomorphic"})
                c5.append({"ctx": ctx, "op": "emulp", "args": [oa[1], ob[1]], "tag": "homomorphic"})
                c5.append({"ctx": ctx, "op": "emulp", "args": [ca["_e"], eb], "tag": "homomorphic"})
            o5 = env.harness(c5)
            c6 = [{"ctx": ctx, "op": "decrypt", "args": [str(pairs[i][0]["_sk"]), [o5[3 * i], o5[3 * i + 1]]], "_want": o5[3 * i + 2], "tag": "homomorphic"} for i in range(len(pairs))]
            for c, o in zip(c6, env.harness(c6)):
                items.append((c, ctx, c["op"], c["args"], o))
                if o != c["_want"]:
                    env.violation("the component-wise product of two ciphertexts does not decrypt to the product of the plaintexts on %s" % ctx,
                                  {"kind": "battery", "case": c, "out": o})
            # keys through their wire format: boundary secrets 0, 1, 2, q-1 and random ones; the decoded private key
            # re-encodes to the same bytes and carries the right public element, which survives its own round trip
            sks = [0, 1, 2, q - 1, q - 2] + [r.randrange(q) for _ in range(2 if ctx.endswith("2048") else 6)]
            c7 = [{"ctx": ctx, "op": "ser_sk", "args": [str(x)], "tag": "key-wire"} for x in sks] + \
                 [{"ctx": ctx, "op": "ser_pk", "args": [str(pow(g, x, p))], "tag": "key-wire"} for x in sks]
            o7 = env.harness(c7)
            c8 = []
            for c, o in zip(c7, o7):
                items.append((c, ctx, c["op"], c["args"], o))
                if not (isinstance(o, str) and o.startswith("x:")):
                    env.violation("%s failed on %s for secret %s: %s" % (c["op"], ctx, c["args"][0][:20], o), {"kind": "battery", "case": c, "out": o}); continue
                c8.append({"ctx": ctx, "op": "de_" + c["op"][4:], "args": [o], "_src": c, "tag": "key-wire"})
            for c, o in zip(c8, env.harness(c8)):
                items.append((c, ctx, c["op"], c["args"], o))
                src = c["_src"]
                if c["op"] == "de_sk":
                    want = [c["args"][0], str(pow(g, int(src["args"][0]), p))]
                    if o != want:
                        env.violation("private key %s does not survive serialization on %s: %s" % (src["args"][0][:20], ctx, str(o)[:80]), {"kind": "battery", "case": [src, c], "out": o})
                elif o != src["args"][0]:
                    env.violation("public key does not survive serialization on %s: %s" % (ctx, str(o)[:80]), {"kind": "battery", "case": [src, c], "out": o})
            allbig += items
    fails += env.tie(allbig, "C01-scripted", shard=100)
    # ---------------- several parameter sets and both multiplicative backends interleaved in ONE process, twice in
    # opposite orders (anything cached across calls must be keyed by the parameter set): encrypt -> wire -> decrypt
    for order in (["B:2048", "B:59", "M:59", "B:23", "M:2048", "B:%d" % P62, "M:23", "B:65267", "M:%d" % P62],
                  ["M:23", "B:23", "B:59", "B:65267", "M:%d" % P62, "B:2048", "M:59", "M:2048", "B:%d" % P62]):
        mix = []
        for ctx in order * 2:
            p_, q_, g_ = pq(ctx); sk = r.randrange(1, q_); m = rnd_member(r, ctx)
            mix.append({"ctx": ctx, "op": "encrypt_r", "args": [str(pow(g_, sk, p_)), str(m), str(r.randrange(q_))], "_sk": sk, "_m": str(m), "tag": "mixed-sets"})
        o_enc = env.harness(mix)
        ser = [{"ctx": c["ctx"], "op": "ser_c", "args": [o], "tag": "mixed-sets"} for c, o in zip(mix, o_enc)]
        o_ser = env.harness(ser)
        de = [{"ctx": c["ctx"], "op": "de_c", "args": [o], "tag": "mixed-sets"} for c, o in zip(mix, o_ser)]
        o_de = env.harness(de)
        dec = [{"ctx": c["ctx"], "op": "decrypt", "args": [str(c["_sk"]), o], "tag": "mixed-sets"} for c, o in zip(mix, o_de)]
        o_dec = env.harness([d if isinstance(d["args"][1], list) else {"ctx": d["ctx"], "op": "gen", "args": [], "tag": "mixed-sets"} for d in dec])
        for c, oc, od, om in zip(mix, o_enc, o_de, o_dec):
            if od != oc or om != c["_m"]:
                env.violation("round trip through the wire format broken on %s when several parameter sets are used in one process (order %s): decoded %s, decrypted %s"
                              % (c["ctx"], order[:3], str(od)[:60], str(om)[:40]), {"kind": "battery", "case": [c, {"ctx": c["ctx"], "op": "de_c", "args": [o_ser[mix.index(c)]]}], "out": [od, om]})
                break
    # ---------------- ristretto battery (implementation only; the theorem covers it under the group-law hypothesis)
    rc = []
    pts = ["00" * 30, "ff" * 30, "01" + "00" * 29, "00" * 29 + "80"] + [r.randbytes(30).hex() for _ in range(4 if env.quick else 40)]
    for pt in pts:
        rc.append({"ctx": "R", "op": "encode", "args": ["x:" + pt], "tag": "ristretto", "_pt": pt})
    ro = env.harness(rc)
    L = 2 ** 252 + 27742317777372353535851937790883648493
    rc2 = []
    for c, o in zip(rc, ro):
        if not (isinstance(o, str) and o.startswith("x:")):
            env.violation("ristretto encode failed for 30-byte plaintext %s: %s" % (c["_pt"], o), {"kind": "battery", "case": c}); continue
        for sk, rr in ((0, 0), (1, L - 1), (r.randrange(L), r.randrange(L))):
            rc2.append({"ctx": "R", "op": "pk_of_sk", "args": [str(sk)], "_e": o, "_sk": sk, "_r": rr, "_pt": c["_pt"], "tag": "ristretto"})
    ro2 = env.harness(rc2)
    rc3 = [{"ctx": "R", "op": "encrypt_r", "args": [o, c["_e"], str(c["_r"])], "_sk": c["_sk"], "_pt": c["_pt"], "_e": c["_e"], "tag": "ristretto"} for c, o in zip(rc2, ro2)]
    ro3 = env.harness(rc3)
    rc4 = [{"ctx": "R", "op": "decrypt", "args": [str(c["_sk"]), o], "_pt": c["_pt"], "_e": c["_e"], "_src": c, "tag": "ristretto"} for c, o in zip(rc3, ro3)]
    ro4 = env.harness(rc4)
    rc5 = [{"ctx": "R", "op": "decode", "args": [o], "_pt": c["_pt"], "_src": c["_src"], "tag": "ristretto"} for c, o in zip(rc4, ro4) if o != "panic"]
    ro5 = env.harness(rc5)
    for c, o in zip(rc5, ro5):
        if o != "x:" + c["_pt"]:
            env.violation("ristretto round trip: plaintext %s came back as %s" % (c["_pt"], o), {"kind": "battery", "case": c["_src"]})
            break
    # exponent transport on ristretto
    rx = []
    for x in (0, 1, L - 1, L - 2, 2 ** 252, 2 ** 252 + 1, 2 ** 252 - 1, 2 ** 248, 2 ** 128 - 1, 2 ** 128, r.randrange(L), r.randrange(L)):
        rx.append({"ctx": "R", "op": "pk_of_sk", "args": ["12345"], "_x": x, "tag": "ristretto"})
    pko = env.harness(rx[:1])[0]
    rx = [{"ctx": "R", "op": "encrypt_exp", "args": [str(c["_x"]), pko, script(r, 512)], "_x": c["_x"], "tag": "ristretto"} for c in rx]
    rxo = env.harness(rx)
    rx2 = [{"ctx": "R", "op": "decrypt_exp", "args": [o[0], "12345"], "_x": c["_x"], "_src": c, "tag": "ristretto"} for c, o in zip(rx, rxo) if isinstance(o, list)]
    for c, o in zip(rx, rxo):
        if not isinstance(o, list) and o != "err":
            env.violation("ristretto encrypt_exp neither errors nor succeeds: %s" % o, {"kind": "battery", "case": c})
    for c, o in zip(rx2, env.harness(rx2)):
        if o != str(c["_x"]):
            env.violation("ristretto exponent transport: %d came back as %s" % (c["_x"], o), {"kind": "battery", "case": c["_src"]})
    if fails:
        env.tie_violation("C01", fails)
