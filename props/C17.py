# C17 — derived generators are deterministic, valid, distinct, free of known relations
import hashlib
import itertools
from props.util import *
from props import wire

TRUSTED = BASE_TRUSTED + ["distinctness / seed dependence / difference from g are properties of SHA-512 outputs: established by kernel computation for concrete seeds (Properties/C17.v) and observed on the implementation, never assumed",
                          "ristretto: SHAKE-256 and the Elligator map from_uniform_bytes are modelled in Gallina (Model/Keccak.v, Model/Ristretto.v) and tied by correspondence; Python hashlib + dalek's own from_uniform_bytes are a second, independent reference in the battery"]
RULE = ("Ctx::generators for seeds '', short, 1 kB and counts 0..64 (quick) / 2000 (thorough) at 2048 bits, 0..300 at 62 bits and on "
        "small sets where the `< 2` retry branch is reachable, 1100 (thorough 4200) generators on p=2039 against the hashlib reference: every list equals the Gallina derivation (SHA-512 over seed||'ggen'||index||count "
        "with pairs appended on retries, mod p, squared); battery: prefix stability, membership via decode, distinctness and "
        "difference from g at >= 62 bits, different seeds give different lists; ristretto: recomputed from SHAKE-256 via hashlib + "
        "dalek from_uniform_bytes, distinct, decodable, non-identity"
        " Added in session 3: call-history battery (growing/shrinking/repeated counts, alternating seeds) and 8 threads requesting a cold seed at once, both against fresh processes;")


def ref_generators(ctx, n, seed):
    """The documented derivation, recomputed with hashlib: per index i = 1..n, buffer = seed || "ggen", per attempt
    (count from 1) the pair (i, count) as two u64 LE is APPENDED, e = int(SHA-512(buffer)) mod p (LE for num-bigint, BE for
    malachite), g = e^2 mod p, accepted if g >= 2."""
    P_, q_, g_ = pq(ctx)
    order = "little" if ctx.startswith("B") else "big"
    out = []
    for i in range(1, n + 1):
        buf = seed + b"ggen"
        count = 0
        while True:
            count += 1
            buf += i.to_bytes(8, "little") + count.to_bytes(8, "little")
            e = int.from_bytes(hashlib.sha512(buf).digest(), order) % P_
            g = pow(e, 2, P_)
            if g >= 2:
                out.append(g)
                break
    return out


def run(env):
    r = env.rng
    cases = []
    # seeds: empty, ASCII, byte strings that are not valid UTF-8 (a digest used as seed), 1 kB random
    seeds = ["x:", "x:73656564", "x:ff", "x:fe", "x:c328a0a1", hexb(r.randbytes(1024))]
    plan = []
    for fl in "BM":
        for pstr, counts in (("23", [0, 1, 5, 40]), ("47", [30]), ("2039", [0, 3, 200 if not env.quick else 60, 1100] + ([4200] if not env.quick else [])), (str(P62), [0, 1, 2, 300 if not env.quick else 100] + ([2100] if not env.quick else [])),
                             ("2048", [0, 1, 64] if env.quick else [0, 1, 64, 2000])):
            for n in counts:
                for sd in (seeds if n <= 100 else seeds[:1]):
                    plan.append(("%s:%s" % (fl, pstr), n, sd))
    for ctx, n, sd in plan:
        cases.append({"ctx": ctx, "op": "generators", "args": [str(n), sd], "tag": "generators/%s" % ctx.split(":")[1][:6], "_n": n})
    outs = env.harness(cases)
    items = []
    byk = {}
    for c, o in zip(cases, outs):
        ctx = c["ctx"]; P_, q_, g_ = pq(ctx)
        if not isinstance(o, list):
            env.violation("generators(%d) failed on %s: %s" % (c["_n"], ctx, o), {"kind": "battery", "case": c, "out": o}); continue
        if not (ctx.endswith("2048") and c["_n"] > 64) and c["_n"] <= 300:
            items.append((c, ctx, "generators", c["args"], o))
        if len(o) != c["_n"]:
            env.violation("generators returned %d items for count %d on %s" % (len(o), c["_n"], ctx), {"kind": "battery", "case": c})
        big = ctx.endswith("2048") or int(ctx.split(":")[1]) > 2 ** 60
        vals = [int(x) for x in o]
        for v in vals:
            if not (2 <= v < P_ and pow(v, q_, P_) == 1):
                env.violation("derived generator %d is not a non-identity member on %s" % (v, ctx), {"kind": "battery", "case": c}); break
        if big and (len(set(vals)) != len(vals) or g_ in vals):
            env.violation("derived generators not pairwise distinct / equal to the standard generator on %s" % ctx, {"kind": "battery", "case": c})
        byk.setdefault((ctx, c["args"][1]), []).append(o)
        if c["_n"] <= 5000:
            ref = ref_generators(ctx, c["_n"], wire.unhx(c["args"][1]))
            if vals != ref:
                k = next((i for i, (a, b) in enumerate(zip(vals, ref)) if a != b), min(len(vals), len(ref)))
                env.violation("generators(%d, seed=%s) on %s differ from the documented SHA-512 derivation at index %d" % (c["_n"], c["args"][1][:24], ctx, k),
                              {"kind": "battery", "case": c, "out": o[:k + 1], "reference": [str(x) for x in ref[:k + 1]]})
    for (ctx, sd), lists in byk.items():
        lists.sort(key=len)
        for a, b in zip(lists, lists[1:]):
            if b[:len(a)] != a:
                env.violation("generators are not prefix-stable on %s" % ctx, {"kind": "battery", "case": {"ctx": ctx, "op": "generators", "args": [str(len(b)), sd]}})
    for ctx in {c["ctx"] for c in cases}:
        big = ctx.endswith("2048") or int(ctx.split(":")[1]) > 2 ** 60
        ls = [(sd, [l for l in byk[(ctx, sd)] if l][-1]) for sd in seeds if (ctx, sd) in byk and any(byk[(ctx, sd)])]
        for (sa, la), (sb_, lb) in itertools.combinations(ls, 2):
            if big and la[:1] == lb[:1]:
                env.violation("seeds %s and %s give the same first generator on %s" % (sa[:20], sb_[:20], ctx),
                              {"kind": "battery", "case": [{"ctx": ctx, "op": "generators", "args": ["1", sa]}, {"ctx": ctx, "op": "generators", "args": ["1", sb_]}]})
    # determinism in a fresh process
    for c, o in list(zip(cases, outs))[:: max(1, len(cases) // 6)]:
        if env.harness([c])[0] != o:
            env.violation("generators differ between processes on %s" % c["ctx"], {"kind": "battery", "case": c})
    # call history: one process asks for growing, shrinking and repeated counts under the same and under alternating seeds;
    # every answer must be the prefix of what a fresh process derives (the list is a function of (seed, index) only)
    for ctx in ("R", "B:2039", "M:2039", "B:%d" % P62, "M:2048"):
        sa, sb_ = "x:6869", "x:"
        seq = [(8, sa), (20, sa), (5, sa), (33, sa), (33, sa), (2, sb_), (40, sa), (41, sb_), (7, sb_), (64, sb_), (1, sa), (65, sa)]
        if ctx == "M:2048":
            seq = [(2, sa), (5, sa), (3, sb_), (6, sa)]
        sc = [{"ctx": ctx, "op": "generators", "args": [str(n), sd], "tag": "call-history"} for n, sd in seq]
        so = env.harness(sc)
        fresh = {sd: env.harness([{"ctx": ctx, "op": "generators", "args": [str(max(n for n, d in seq if d == sd)), sd], "tag": "call-history-ref"}])[0] for sd in (sa, sb_)}
        for k, (c, o) in enumerate(zip(sc, so)):
            n, sd = seq[k]
            if o != fresh[sd][:n]:
                bad = next((i for i, (a, b) in enumerate(zip(o, fresh[sd])) if a != b), "?") if isinstance(o, list) else o
                env.violation("generators depend on call history on %s: call #%d generators(%d, %s) after %s differs from a fresh process at index %s"
                              % (ctx, k, n, sd, seq[:k], bad), {"kind": "battery", "case": sc[:k + 1], "out": o if not isinstance(o, list) else o[:8]})
                break
    # several threads asking for the same (cold) seed at the same moment, then a longer request: every answer is the
    # prefix of what a fresh process derives
    for ctx in ("R", "B:2039", "M:2039"):
        for rep in range(2):
            sd = "x:7468" + "%02x" % rep
            got = env.harness([{"ctx": ctx, "op": "generators_threads", "args": ["8", "40", sd], "tag": "concurrent-cold-seed"}])[0]
            ref = env.harness([{"ctx": ctx, "op": "generators", "args": ["80", sd], "tag": "concurrent-cold-seed-ref"}])[0]
            if not isinstance(got, list) or any(x != ref[:40] for x in got[0]) or got[1] != ref:
                env.violation("generators requested concurrently by 8 threads (40 each) and then 80 on %s: answers are not prefixes of the derivation a fresh process computes" % ctx,
                              {"kind": "battery", "case": {"ctx": ctx, "op": "generators_threads", "args": ["8", "40", sd]},
                               "out": str(got)[:400]})
                break
    fails = env.tie(items, "C17", shard=6)
    # ristretto against SHAKE-256 (hashlib) + dalek's from_uniform_bytes
    for sd, n in ((b"", 40 if env.quick else 2000), (b"seed", 40 if env.quick else 2000), (b"\xff", 40), (r.randbytes(1024), 40), (b"large", 1100 if env.quick else 5000)):
        o = env.harness([{"ctx": "R", "op": "generators", "args": [str(n), hexb(sd)], "tag": "ristretto"}])[0]
        stream = hashlib.shake_256(sd).digest(64 * n)
        ref = env.harness([{"ctx": "R", "op": "raw_from_uniform", "args": [hexb(stream[64 * i: 64 * i + 64])], "tag": "ristretto-ref"} for i in range(min(n, 200 if n != 1100 else 1100))])
        if o[:len(ref)] != ref:
            env.violation("ristretto generators differ from SHAKE-256(seed) chunks mapped by from_uniform_bytes", {"kind": "battery", "case": {"ctx": "R", "op": "generators", "args": [str(n), hexb(sd)]}})
        ident = "x:" + "00" * 32
        if len(set(o)) != len(o) or ident in o:
            env.violation("ristretto generators not distinct / contain the identity", {"kind": "battery", "case": {"ctx": "R", "seed": sd.hex()[:20]}})
        o2 = env.harness([{"ctx": "R", "op": "generators", "args": [str(n // 2), hexb(sd)], "tag": "ristretto"}])[0]
        if o[: n // 2] != o2:
            env.violation("ristretto generators not prefix-stable", {"kind": "battery", "case": {"ctx": "R"}})
    if fails:
        env.tie_violation("C17", fails)
