# C17 — derived generators are deterministic, valid, distinct, free of known relations
import hashlib
from props.util import *
from props import wire

TRUSTED = BASE_TRUSTED + ["distinctness / seed dependence / difference from g are properties of SHA-512 outputs: established by kernel computation for concrete seeds (Properties/C17.v) and observed on the implementation, never assumed",
                          "ristretto: SHAKE-256 (Python hashlib, independent implementation) and dalek's from_uniform_bytes are the reference; the point map itself is not modelled"]
RULE = ("Ctx::generators for seeds '', short, 1 kB and counts 0..64 (quick) / 2000 (thorough) at 2048 bits, 0..300 at 62 bits and on "
        "small sets where the `< 2` retry branch is reachable: every list equals the Gallina derivation (SHA-512 over seed||'ggen'||index||count "
        "with pairs appended on retries, mod p, squared); battery: prefix stability, membership via decode, distinctness and "
        "difference from g at >= 62 bits, different seeds give different lists; ristretto: recomputed from SHAKE-256 via hashlib + "
        "dalek from_uniform_bytes, distinct, decodable, non-identity")


def run(env):
    r = env.rng
    cases = []
    seeds = ["x:", "x:73656564", hexb(r.randbytes(1024))]
    plan = []
    for fl in "BM":
        for pstr, counts in (("23", [0, 1, 5, 40]), ("47", [30]), ("2039", [0, 3, 200 if not env.quick else 60]), (str(P62), [0, 1, 2, 300 if not env.quick else 100]),
                             ("2048", [0, 1, 64] if env.quick else [0, 1, 64, 2000])):
            for n in counts:
                for sd in (seeds if n <= 100 else seeds[:1]):
                    plan.append(("%s:%s" % (fl, pstr), n, sd))
    for ctx, n, sd in plan:
        cases.append({"ctx": ctx, "op": "generators", "args": [str(n), sd], "tag": "generators/%s" % ctx.split(":")[1][:6], "_n": n})
    outs = env.harness(cases)
    items = []
    byk = {}
    for c, o in zip(cases, outs):
        ctx = c["ctx"]; P_, q_, g_ = pq(ctx)
        if not isinstance(o, list):
            env.violation("generators(%d) failed on %s: %s" % (c["_n"], ctx, o), {"kind": "battery", "case": c, "out": o}); continue
        if not (ctx.endswith("2048") and c["_n"] > 64):
            items.append((c, ctx, "generators", c["args"], o))
        if len(o) != c["_n"]:
            env.violation("generators returned %d items for count %d on %s" % (len(o), c["_n"], ctx), {"kind": "battery", "case": c})
        big = ctx.endswith("2048") or int(ctx.split(":")[1]) > 2 ** 60
        vals = [int(x) for x in o]
        for v in vals:
            if not (2 <= v < P_ and pow(v, q_, P_) == 1):
                env.violation("derived generator %d is not a non-identity member on %s" % (v, ctx), {"kind": "battery", "case": c}); break
        if big and (len(set(vals)) != len(vals) or g_ in vals):
            env.violation("derived generators not pairwise distinct / equal to the standard generator on %s" % ctx, {"kind": "battery", "case": c})
        byk.setdefault((ctx, c["args"][1]), []).append(o)
    for (ctx, sd), lists in byk.items():
        lists.sort(key=len)
        for a, b in zip(lists, lists[1:]):
            if b[:len(a)] != a:
                env.violation("generators are not prefix-stable on %s" % ctx, {"kind": "battery", "case": {"ctx": ctx, "op": "generators", "args": [str(len(b)), sd]}})
    for ctx in {c["ctx"] for c in cases}:
        big = ctx.endswith("2048") or int(ctx.split(":")[1]) > 2 ** 60
        ls = [byk[(ctx, sd)][-1] for sd in seeds if (ctx, sd) in byk]
        if big and len(ls) >= 2 and ls[0] and ls[1] and ls[0][:1] == ls[1][:1]:
            env.violation("different seeds give the same first generator on %s" % ctx, {"kind": "battery", "case": {"ctx": ctx}})
    # determinism in a fresh process
    for c, o in list(zip(cases, outs))[:: max(1, len(cases) // 6)]:
        if env.harness([c])[0] != o:
            env.violation("generators differ between processes on %s" % c["ctx"], {"kind": "battery", "case": c})
    fails = env.tie(items, "C17", shard=6)
    # ristretto against SHAKE-256 (hashlib) + dalek's from_uniform_bytes
    for sd in (b"", b"seed", r.randbytes(1024)):
        n = 40 if env.quick else 2000
        o = env.harness([{"ctx": "R", "op": "generators", "args": [str(n), hexb(sd)], "tag": "ristretto"}])[0]
        stream = hashlib.shake_256(sd).digest(64 * n)
        ref = env.harness([{"ctx": "R", "op": "raw_from_uniform", "args": [hexb(stream[64 * i: 64 * i + 64])], "tag": "ristretto-ref"} for i in range(min(n, 200))])
        if o[:len(ref)] != ref:
            env.violation("ristretto generators differ from SHAKE-256(seed) chunks mapped by from_uniform_bytes", {"kind": "battery", "case": {"ctx": "R", "op": "generators", "args": [str(n), hexb(sd)]}})
        ident = "x:" + "00" * 32
        if len(set(o)) != len(o) or ident in o:
            env.violation("ristretto generators not distinct / contain the identity", {"kind": "battery", "case": {"ctx": "R", "seed": sd.hex()[:20]}})
        o2 = env.harness([{"ctx": "R", "op": "generators", "args": [str(n // 2), hexb(sd)], "tag": "ristretto"}])[0]
        if o[: n // 2] != o2:
            env.violation("ristretto generators not prefix-stable", {"kind": "battery", "case": {"ctx": "R"}})
    if fails:
        env.tie_violation("C17", fails)
