# C09 — threshold shares always match the dealer's public commitments (Feldman check)
from props.util import *

TRUSTED = BASE_TRUSTED + ["ristretto255 group laws (hypothesis); ristretto runs are implementation-only"]
RULE = ("every (n, t, receiver) with t <= n <= 20 (quick) / 40 (thorough) on p=2039 and the 16-bit set with random coefficient "
        "vectors incl. zeros and q-1 (there (j+1)^i exceeds q: unreduced-exponent regime), n in {17,20,33,64,100} with "
        "t in {1,2,n-1,n} at 62 and 2048 bits (where (j+1)^i exceeds 2^64); gen_coefficients (scripted RNG), "
        "compute_peer_share, verification_key_factor compared with the Gallina model; battery: g^share equals the "
        "verification-key factor, a share altered by a non-zero amount does not; release build (and debug build in thorough)")


def run(env):
    r = env.rng
    cases = []
    def coeffs(q, t, k):
        kinds = [lambda: r.randrange(q), lambda: 0, lambda: q - 1]
        return [kinds[(k + i) % 3 if (k % 4 == 0) else 0]() for i in range(t)]
    plan = []
    nmax = 20 if env.quick else 40
    for pstr in ("2039", "65267"):
        for n in range(1, nmax + 1):
            ts = range(1, n + 1) if (n <= 8 or not env.quick) else sorted({1, 2, n // 2, n - 1, n})
            for t in ts:
                js = range(n) if (n <= 6 or not env.quick) else sorted({0, 1, n // 2, n - 2, n - 1})
                plan.append((pstr, n, t, list(js)))
    for pstr, ns in ((str(P62), [17, 20, 33, 64, 100] if not env.quick else [17, 20, 64]), ("2048", [17] if env.quick else [17, 20, 64])):
        for n in ns:
            for t in sorted({1, 2, n - 1, n}) if pstr != "2048" else [n]:
                js = sorted({0, 1, n // 2, n - 2, n - 1}) if pstr != "2048" else [n - 1]
                plan.append((pstr, n, t, js))
    st1 = []
    for k, (pstr, n, t, js) in enumerate(plan):
        for fl in "BM":
            ctx = "%s:%s" % (fl, pstr)
            p, q, g = pq(ctx)
            cf = coeffs(q, t, k)
            sc = script_for_exps(ctx, cf, r, pad=64) if fl == "B" else script(r, 40 * t + 64)
            st1.append({"ctx": ctx, "op": "gen_coefficients", "args": [str(t), sc], "tag": "gen_coefficients", "_n": n, "_t": t, "_js": js})
    o1 = env.harness(st1)
    items = []
    st2 = []
    for c, o in zip(st1, o1):
        ctx = c["ctx"]
        if not isinstance(o, list):
            env.violation("gen_coefficients failed on %s: %s" % (ctx, o), {"kind": "battery", "case": c}); continue
        cf, cm, draws, used = o
        items.append((c, ctx, "gen_coefficients_r", [draws], [cf, cm]))
        for j in c["_js"]:
            st2.append({"ctx": ctx, "op": "compute_peer_share", "args": [str(j), str(c["_t"]), cf], "tag": "share", "_cm": cm, "_t": c["_t"], "_j": j, "_n": c["_n"]})
            st2.append({"ctx": ctx, "op": "verification_key_factor", "args": [cm, str(c["_t"]), str(j)], "tag": "vkf", "_t": c["_t"], "_j": j, "_n": c["_n"]})
    builds = [("release", {})] + ([("debug", {})] if not env.quick else [])
    for prof, _ in builds:
        o2 = env.harness(st2, profile=prof)
        st3 = []
        for i in range(0, len(st2), 2):
            cs, cv = st2[i], st2[i + 1]
            os_, ov = o2[i], o2[i + 1]
            if prof == "release":
                items.append((cs, cs["ctx"], cs["op"], cs["args"], os_))
                items.append((cv, cv["ctx"], cv["op"], cv["args"], ov))
            if ov == "panic" or os_ == "panic":
                env.violation("%s build: %s panics for n=%d t=%d receiver=%d on %s" % (prof, "verification_key_factor" if ov == "panic" else "compute_peer_share", cs["_n"], cs["_t"], cs["_j"], cs["ctx"]),
                              {"kind": "battery", "case": [cs, cv], "out": [os_, ov], "build": prof}, key="F3")
                continue
            p, q, g = pq(cs["ctx"])
            st3.append({"ctx": cs["ctx"], "op": "gpow", "args": [os_], "_vkf": ov, "_src": [cs, cv], "_prof": prof, "tag": "feldman"})
            st3.append({"ctx": cs["ctx"], "op": "gpow", "args": [str((int(os_) + 1 + (i % 5)) % q)], "_vkf_ne": ov, "_src": [cs, cv], "_prof": prof, "tag": "tamper"})
        o3 = env.harness(st3, profile=prof)
        for c, o in zip(st3, o3):
            if "_vkf" in c and o != c["_vkf"]:
                s_ = c["_src"][0]
                env.violation("%s build: honest share rejected: g^share != verification_key_factor for n=%d t=%d receiver=%d on %s" % (c["_prof"], s_["_n"], s_["_t"], s_["_j"], s_["ctx"]),
                              {"kind": "battery", "case": c["_src"], "gpow_share": o, "vkf": c["_vkf"], "build": c["_prof"]}, key="F3")
                break
            if "_vkf_ne" in c and o == c["_vkf_ne"]:
                env.violation("altered share passes the Feldman comparison on %s" % c["ctx"], {"kind": "battery", "case": c["_src"]})
    fails = env.tie(items, "C09", shard=150)
    # ristretto, implementation only
    for n, t in ((3, 2), (17, 17), (20, 20)) if env.quick else ((3, 2), (17, 17), (20, 20), (64, 64), (100, 100)):
        o = env.harness([{"ctx": "R", "op": "gen_coefficients", "args": [str(t), script(r, 64 * t + 64)], "tag": "ristretto"}])[0]
        cf, cm = o[0], o[1]
        for j in sorted({0, n - 2, n - 1}):
            a = env.harness([{"ctx": "R", "op": "compute_peer_share", "args": [str(j), str(t), cf], "tag": "ristretto"},
                             {"ctx": "R", "op": "verification_key_factor", "args": [cm, str(t), str(j)], "tag": "ristretto"}])
            if "panic" in a:
                env.violation("ristretto: threshold share/verification panics n=%d t=%d receiver=%d" % (n, t, j), {"kind": "battery", "case": {"n": n, "t": t, "j": j}}, key="F3"); continue
            gp = env.harness([{"ctx": "R", "op": "gpow", "args": [a[0]], "tag": "ristretto"}])[0]
            if gp != a[1]:
                env.violation("ristretto: honest share rejected n=%d t=%d receiver=%d" % (n, t, j), {"kind": "battery", "case": {"n": n, "t": t, "j": j, "coeffs": cf}}, key="F3")
    if fails:
        env.tie_violation("C09", fails)
