# C11 — only genuine subgroup elements and canonical exponents decode from bytes
import itertools, struct
from props.util import *
from props import wire

TRUSTED = BASE_TRUSTED + ["ristretto: curve25519-dalek's decompress / from_canonical_bytes are the oracle (strand must add or lose nothing around them); point validity itself is not modelled",
                          "member = quadratic residue is not proved (stretch); the theorem characterises acceptance as 1 <= v < p /\\ v^q mod p = 1, which is what the code checks (Euler's criterion)"]
RULE = ("element_from_bytes and exp_from_bytes on ALL byte strings of length 0..1 and (quick: 4000 sampled / thorough: all 65536) "
        "2-byte strings on p=23, 2039 and the 16-bit set, both backends: accepted set == subgroup (squares, computed independently) "
        "and == the Gallina model; at 2048 bits residues, non-residues (p-1, p-a), 0, p, p+1, 2^2048, zero-padded and over-long "
        "encodings; composite wire objects with one embedded invalid element/exponent; ristretto: rule-generated encodings "
        "(random, wrong length, high bit, scalar >= l, l-1, 0) judged against dalek directly")


def run(env):
    r = env.rng
    items = []
    cases = []
    for p in (23, 2039, 65267):
        q = (p - 1) // 2
        sq = set(members(p))
        strs = [b""] + [bytes([a]) for a in range(256)]
        two = [bytes([a, b]) for a in range(256) for b in range(256)]
        if env.quick:
            two = r.sample(two, 4000 if p == 23 else 800)
        else:
            env.exhaustive = True
        for fl in "BM":
            ctx = "%s:%d" % (fl, p)
            for b in strs + two:
                v = int.from_bytes(b, "little" if fl == "B" else "big")
                cases.append({"ctx": ctx, "op": "e_from_bytes", "args": [hexb(b)], "_v": v, "_acc": v in sq, "tag": "e_from_bytes/%d" % len(b)})
                cases.append({"ctx": ctx, "op": "x_from_bytes", "args": [hexb(b)], "_v": v, "_acc": v < q, "tag": "x_from_bytes/%d" % len(b)})
    for fl in "BM":
        ctx = "%s:2048" % fl; P_, q_, g_ = pq(ctx)
        bo = "little" if fl == "B" else "big"
        def enc(v, pad=0):
            n = max(1, (v.bit_length() + 7) // 8) + pad
            return v.to_bytes(n, bo)
        res = [rnd_member(r, ctx) for _ in range(2 if env.quick else 10)]
        euler = lambda v: 1 <= v < P_ and pow(v, q_, P_) == 1      # independent reference (Python bignum)
        vals = [(v, euler(v)) for v in (1, g_, 0, P_, P_ + 1, P_ - 1, 2 ** 2048, 2 ** 2049, 2 ** 2050 + 5, 2, 3, 5)]
        vals += [(a, True) for a in res] + [(P_ - a, False) for a in res]
        for v, acc in vals:
            cases.append({"ctx": ctx, "op": "e_from_bytes", "args": [hexb(enc(v))], "_v": v, "_acc": acc, "tag": "2048-e"})
        cases.append({"ctx": ctx, "op": "e_from_bytes", "args": [hexb(enc(res[0], pad=3))], "_v": res[0], "_acc": True, "tag": "2048-zero-padded"})
        for v, acc in ((0, True), (1, True), (q_ - 1, True), (q_, False), (q_ + 1, False), (P_, False), (2 ** 2048, False)):
            cases.append({"ctx": ctx, "op": "x_from_bytes", "args": [hexb(enc(v))], "_v": v, "_acc": acc, "tag": "2048-x"})
    outs = env.harness(cases)
    for c, o in zip(cases, outs):
        items.append((c, c["ctx"], c["op"], c["args"], o))
        accepted = o not in ("err", "panic")
        if o == "panic":
            env.violation("%s panics on %s for %s" % (c["op"], c["ctx"], c["args"][0][:40]), {"kind": "battery", "case": c})
        elif accepted != c["_acc"]:
            env.violation("%s on %s %s the encoding of %d (%s)" % (c["op"], c["ctx"], "ACCEPTS" if accepted else "rejects", c["_v"], "not in the group/range" if not c["_acc"] else "a valid value"),
                          {"kind": "battery", "case": c, "out": o})
        elif accepted and int(o) != c["_v"]:
            env.violation("%s on %s decodes to %s instead of %d" % (c["op"], c["ctx"], o, c["_v"]), {"kind": "battery", "case": c, "out": o})
    # composites with one embedded invalid component
    comp = []
    for fl in "BM":
        for pstr in ("2039", str(P62)):
            ctx = "%s:%s" % (fl, pstr); P_, q_, g_ = pq(ctx)
            good = [rnd_member(r, ctx) for _ in range(6)]
            bad_e = [0, P_ - 1, P_, P_ - good[0]]
            bad_x = [q_, q_ + 1, P_]
            E = lambda v: wire.ser_int(fl, v)
            for be in bad_e:
                comp.append((ctx, "de_c", E(good[0]) + E(be))); comp.append((ctx, "de_c", E(be) + E(good[1])))
                comp.append((ctx, "de_pk", E(be))); comp.append((ctx, "de_sk", E(5) + E(be)))
                comp.append((ctx, "de_schnorr", E(be) + E(1) + E(2)))
                comp.append((ctx, "de_cp", E(good[0]) + E(be) + E(1) + E(2)))
                comp.append((ctx, "de_vec_e", wire.svec([E(good[0]), E(be), E(good[1])])))
                comp.append((ctx, "de_vec_c", wire.svec([E(good[0]) + E(good[1]), E(good[2]) + E(be)])))
                pf = {"t1": good[0], "t2": good[1], "t3": good[2], "t41": good[3], "t42": good[4], "t_hats": [good[5]], "s1": 1, "s2": 2, "s3": 3, "s4": 4, "s_hats": [5], "s_primes": [6], "cs": [good[0]], "c_hats": [good[1]]}
                for k in ("t3", "t_hats", "cs", "c_hats"):
                    m = dict(pf); m[k] = be if not isinstance(pf[k], list) else [be]
                    comp.append((ctx, "de_proof", wire.proof_bytes(fl, m)))
            for bx in bad_x:
                comp.append((ctx, "de_sk", E(bx) + E(good[0])))
                comp.append((ctx, "de_schnorr", E(good[0]) + E(bx) + E(2))); comp.append((ctx, "de_schnorr", E(good[0]) + E(1) + E(bx)))
                comp.append((ctx, "de_cp", E(good[0]) + E(good[1]) + E(1) + E(bx)))
                comp.append((ctx, "de_vec_x", wire.svec([E(1), E(bx)])))
                pf = {"t1": good[0], "t2": good[1], "t3": good[2], "t41": good[3], "t42": good[4], "t_hats": [good[5]], "s1": 1, "s2": 2, "s3": 3, "s4": 4, "s_hats": [5], "s_primes": [6], "cs": [good[0]], "c_hats": [good[1]]}
                for k in ("s2", "s_hats", "s_primes"):
                    m = dict(pf); m[k] = bx if not isinstance(pf[k], list) else [bx]
                    comp.append((ctx, "de_proof", wire.proof_bytes(fl, m)))
            # and the all-valid versions decode
            comp.append((ctx, "de_c", E(good[0]) + E(good[1]), True)); comp.append((ctx, "de_schnorr", E(good[0]) + E(1) + E(q_ - 1), True))
    cc = [{"ctx": t[0], "op": t[1], "args": [hexb(t[2])], "_ok": len(t) > 3, "tag": "composite-" + t[1]} for t in comp]
    for c, o in zip(cc, env.harness(cc)):
        items.append((c, c["ctx"], c["op"], c["args"], o))
        if c["_ok"] and o in ("err", "panic"):
            env.violation("valid composite %s rejected on %s" % (c["op"], c["ctx"]), {"kind": "battery", "case": c, "out": o})
        if not c["_ok"] and o != "err":
            env.violation("%s on %s accepts an object with an invalid embedded element/exponent: %s" % (c["op"], c["ctx"], str(o)[:60]), {"kind": "battery", "case": c, "out": o})
    fails = env.tie(items, "C11", shard=3000)
    # ristretto against dalek
    L = 2 ** 252 + 27742317777372353535851937790883648493
    rc = []
    enc = [r.randbytes(32) for _ in range(60 if env.quick else 600)]
    good = env.harness([{"ctx": "R", "op": "gpow", "args": [str(r.randrange(L))]} for _ in range(10)])
    for gpt in good:
        b = bytearray(wire.unhx(gpt)); enc.append(bytes(b))
        b2 = bytearray(b); b2[31] |= 0x80; enc.append(bytes(b2))       # high bit
        b3 = bytearray(b); b3[0] ^= 1; enc.append(bytes(b3))            # negative / non-canonical
        enc.append(bytes(b[:31])); enc.append(bytes(b) + b"\x00")       # wrong length
    enc += [bytes(32), b"\xff" * 32, (2 ** 255 - 19).to_bytes(32, "little"), (2 ** 255 - 18).to_bytes(32, "little")]
    for b in enc:
        rc.append({"ctx": "R", "op": "e_from_bytes", "args": [hexb(b)], "tag": "ristretto-point"})
        rc.append({"ctx": "R", "op": "raw_point_valid", "args": [hexb(b)], "tag": "ristretto-oracle"})
    sc = [0, 1, L - 1, L, L + 1, 2 ** 255, 2 ** 256 - 1] + [r.randrange(2 ** 256) for _ in range(20)]
    for v in sc:
        b = v.to_bytes(32, "little")
        rc.append({"ctx": "R", "op": "x_from_bytes", "args": [hexb(b)], "_v": v, "tag": "ristretto-scalar"})
        rc.append({"ctx": "R", "op": "raw_scalar_canonical", "args": [hexb(b)], "tag": "ristretto-oracle"})
    rc.append({"ctx": "R", "op": "x_from_bytes", "args": [hexb(b"\x01" * 31)], "_v": None, "tag": "ristretto-scalar"})
    rc.append({"ctx": "R", "op": "raw_scalar_canonical", "args": [hexb(b"\x01" * 31)], "tag": "ristretto-oracle"})
    ro = env.harness(rc)
    for i in range(0, len(rc), 2):
        c, o, orc = rc[i], ro[i], ro[i + 1]
        acc = o not in ("err", "panic")
        if o == "panic" or acc != orc:
            env.violation("ristretto %s: strand %s but curve25519-dalek says valid=%s for %s" % (c["op"], "accepts" if acc else o, orc, c["args"][0]), {"kind": "battery", "case": c, "out": o})
        if c["op"] == "x_from_bytes" and c.get("_v") is not None:
            if acc != (c["_v"] < L) or (acc and int(o) != c["_v"]):
                env.violation("ristretto exponent decode wrong for %d: %s" % (c["_v"], o), {"kind": "battery", "case": c, "out": o})
    if fails:
        env.tie_violation("C11", fails)
