# An adversarial Terelius-Wikstrom prover in Python for the multiplicative backends. It never acts as an oracle: it
# only BUILDS inputs (honest-looking or malicious proofs). Challenges come from the implementation itself through the
# `shuffle_us` / `shuffle_challenge` hooks, so the forgeries stay in sync with whatever transcript the code hashes.
from props.util import pq
from props import wire


def inv(a, p):
    return pow(a, -1, p)


def build(env, ctx, pk, gens, es, label, perm, rng, mode="honest", surplus=1, outputs=None, matrix_rows=None, tamper=None, info=None):
    """Returns (outputs e', proof_bytes_hex). Modes:
       honest            — a correct proof for a correct shuffle (control)
       surplus_t_hats    — honest shuffle; `surplus` extra chain proof-commitments are committed BEFORE the challenge
       break_eq:<k>      — honest shuffle; commitment t<k> (1,2,3,41,42) is multiplied by g before the challenge: every equation
                           but that one holds
       break_chain:<i>   — same for chain proof-commitment i
       tamper=(a, b, X)  — output a has its first component multiplied by X and output b divided by X (no longer a re-encrypted
                           permutation); the prover then proceeds as if nothing happened. Every equation still holds exactly when
                           the per-ciphertext challenges of outputs a and b coincide.
       info              — dict that receives the implementation's per-ciphertext challenges ("us")
    """
    P, q, g = pq(ctx); fl = ctx[0]
    pkv = int(pk); h0 = int(gens[0]); hs = [int(x) for x in gens[1:]]
    N = len(es)
    E = [(int(a), int(b)) for a, b in es]
    rr = [rng.randrange(q) for _ in range(N)]
    reenc = [((a * pow(pkv, r, P)) % P, (b * pow(g, r, P)) % P) for (a, b), r in zip(E, rr)]
    out = [reenc[i] for i in perm]
    if tamper is not None:
        ta, tb, tx = tamper
        out[ta] = ((out[ta][0] * tx) % P, out[ta][1]); out[tb] = ((out[tb][0] * inv(tx, P)) % P, out[tb][1])
    rc = [rng.randrange(q) for _ in range(N)]
    cs = [0] * N; rsp = [0] * N
    for i in range(N):
        cs[perm[i]] = (hs[i] * pow(g, rc[i], P)) % P; rsp[perm[i]] = rc[i]
    S = lambda v: str(v)
    es_j = [[S(a), S(b)] for a, b in E]; out_j = [[S(a), S(b)] for a, b in out]
    us = env.harness([{"ctx": ctx, "op": "shuffle_us", "args": [pk, es_j, out_j, [S(c) for c in cs], S(N), label], "tag": "forger-us"}])[0]
    us = [int(u) for u in us]
    if info is not None:
        info["us"] = us
    up = [us[perm[i]] for i in range(N)]
    rh = [rng.randrange(q) for _ in range(N)]
    ch = []; prev = h0
    for i in range(N):
        c = (pow(g, rh[i], P) * pow(prev, up[i], P)) % P; ch.append(c); prev = c
    vs = [1] * N
    for i in range(N - 2, -1, -1):
        vs[i] = (up[i + 1] * vs[i + 1]) % q
    r_bar = sum(rsp) % q; r_hat = sum(a * b for a, b in zip(rh, vs)) % q
    r_tilde = sum(a * b for a, b in zip(rsp, us)) % q; r_prime = sum(a * b for a, b in zip(rr, us)) % q
    om = [rng.randrange(q) for _ in range(4)]; oh = [rng.randrange(q) for _ in range(N)]; op = [rng.randrange(q) for _ in range(N)]
    prod = lambda xs: __import__("functools").reduce(lambda a, b: (a * b) % P, xs, 1)
    t1 = pow(g, om[0], P); t2 = pow(g, om[1], P)
    t3 = (pow(g, om[2], P) * prod(pow(h, w, P) for h, w in zip(hs, op))) % P
    t41 = (pow(inv(pkv, P), om[3], P) * prod(pow(o[0], w, P) for o, w in zip(out, op))) % P
    t42 = (pow(inv(g, P), om[3], P) * prod(pow(o[1], w, P) for o, w in zip(out, op))) % P
    th = [(pow(g, oh[i], P) * pow(h0 if i == 0 else ch[i - 1], op[i], P)) % P for i in range(N)]
    pf = {"t1": t1, "t2": t2, "t3": t3, "t41": t41, "t42": t42, "t_hats": th, "s1": 0, "s2": 0, "s3": 0, "s4": 0,
          "s_hats": [0] * N, "s_primes": [0] * N, "cs": cs, "c_hats": ch}
    if mode == "surplus_t_hats":
        pf["t_hats"] = th + [pow(g, rng.randrange(1, q), P) for _ in range(surplus)]
    elif mode.startswith("break_eq:"):
        k = mode.split(":")[1]; pf["t" + k] = (pf["t" + k] * g) % P
    elif mode.startswith("break_chain:"):
        i = int(mode.split(":")[1]); pf["t_hats"][i] = (pf["t_hats"][i] * g) % P
    # the implementation's own final challenge for these commitments
    c = env.harness([{"ctx": ctx, "op": "shuffle_challenge", "args": [pk, es_j, out_j, wire.hx(wire.proof_bytes(fl, pf)), label], "tag": "forger-challenge"}])[0]
    if not isinstance(c, str) or not c.isdigit():
        return out_j, None
    c = int(c)
    pf["s1"] = (om[0] + c * r_bar) % q; pf["s2"] = (om[1] + c * r_hat) % q
    pf["s3"] = (om[2] + c * r_tilde) % q; pf["s4"] = (om[3] + c * r_prime) % q
    pf["s_hats"] = [(oh[i] + c * rh[i]) % q for i in range(N)]
    pf["s_primes"] = [(op[i] + c * up[i]) % q for i in range(N)]
    return out_j, wire.hx(wire.proof_bytes(fl, pf))
