# C19 — the parallel (rayon) build is observably equivalent to the sequential build
import copy
from props.util import *
from props import shuf, wire

TRUSTED = BASE_TRUSTED + ["rayon's work stealing implements the split/join semantics of Model/Par.v (trusted); data-race freedom is Rust's Send/Sync typing"]
RULE = ("a corpus of deterministic operations (vector (de)serialization of every wire type with 0..300 items, generators, "
        "per-index and final shuffle challenges for N up to 300, joint_dec_many, verify_decryption_factors, check_proof on honest "
        "and mutated proofs — every index of every per-ciphertext vector for N <= 50 —, structurally altered vector encodings (surplus / missing byte inside an item, bumped count, swapped items), N up to 50 quick / 300 thorough) is executed by the sequential harness build and by the rayon build "
        "under RAYON_NUM_THREADS in {1,2,3,7,16}, twice each: every output must be identical; shuffles+proofs produced by the rayon "
        "build (OS randomness) verify and decrypt in the sequential build and vice versa; a sample of the rayon outputs is also "
        "compared with the Gallina model; large inputs (labels of 70 KB / 300 KB / 1.2 MB in shuffle, Schnorr and hash_to_exp "
        "transcripts, 3000 (thorough 12000) ciphertext statements and vectors) compared between the builds only"
        " Added in session 3: rayon decryption_factor_many position-aligned under 2,3,7,16 threads;")


def run(env):
    r = env.rng
    corpus = []
    def add(ctx, op, args, tag):
        corpus.append({"ctx": ctx, "op": op, "args": args, "tag": tag})
    sizes = [0, 1, 2, 17, 100] + ([300] if not env.quick else [])
    for ctx in ("B:%d" % P62, "M:%d" % P62, "B:23"):
        P_, q_, g_ = pq(ctx)
        for n in sizes:
            es = [str(rnd_member(r, ctx)) for _ in range(n)]
            xs = [str(r.randrange(q_)) for _ in range(n)]
            cs = [[str(rnd_member(r, ctx)), str(rnd_member(r, ctx))] for _ in range(n)]
            add(ctx, "ser_vec_e", [es], "ser"); add(ctx, "ser_vec_x", [xs], "ser"); add(ctx, "ser_vec_c", [cs], "ser")
            add(ctx, "ser_vec_p", [[str(r.randrange(2 ** 70)) for _ in range(n)]], "ser")
            add(ctx, "generators", [str(n), "x:73"], "generators")
            if n:
                add(ctx, "shuffle_us", ["4", cs, cs, es, str(n), "x:6c"], "shuffle_us")
            sk = r.randrange(1, q_)
            rows = [[str(pow(int(c[1]), s_, P_)) for c in cs] for s_ in (sk, sk + 1, 7)]
            add(ctx, "joint_dec_many", [rows, cs], "joint_dec_many")
    # vectors whose items encode to DIFFERENT byte lengths (0, 1, 255, 256, 2^32, q-1 ...), short item first and long item first:
    # a parallel writer must not assume a fixed width
    for ctx in ("B:%d" % P62, "M:%d" % P62, "B:2039"):
        P_, q_, g_ = pq(ctx)
        mixed_x = [0, 1, 255, 256, 65535, 65536, 2 ** 32 % q_, (2 ** 56) % q_, q_ - 1, q_ - 2, 7, 0, q_ // 2]
        for order in (mixed_x, list(reversed(mixed_x)), sorted(mixed_x), [q_ - 1] + [0] * 40 + [q_ - 1], [0] * 40 + [q_ - 1] * 3):
            add(ctx, "ser_vec_x", [[str(x) for x in order]], "ser-mixed-width")
            add(ctx, "ser_vec_p", [[str(x % max(2, q_ - 1)) for x in order]], "ser-mixed-width")
        mixed_e = [1, g_, pow(g_, 2, P_), pow(g_, q_ - 1, P_)] + [rnd_member(r, ctx) for _ in range(6)] + [1, 1]
        for order in (mixed_e, list(reversed(mixed_e)), sorted(mixed_e)):
            add(ctx, "ser_vec_e", [[str(x) for x in order]], "ser-mixed-width")
            add(ctx, "ser_vec_c", [[[str(x), str(order[(i * 3 + 1) % len(order)])] for i, x in enumerate(order)]], "ser-mixed-width")
    # large inputs (sizes at which a parallel build would plausibly switch to chunked / tree evaluation): megabyte
    # labels, thousands of items; compared between the builds and thread counts only (cheap on the implementation)
    bctx = "B:%d" % P62; P_, q_, g_ = pq(bctx)
    es3 = [str(rnd_member(r, bctx)) for _ in range(3)]; cs3 = [[str(rnd_member(r, bctx)), str(rnd_member(r, bctx))] for _ in range(3)]
    for nbytes in (70000, 300000, 1200000):
        lab = "x:" + r.randbytes(nbytes).hex()
        add(bctx, "shuffle_us", ["4", cs3, cs3, es3, "3", lab], "shuffle_us-label%dk" % (nbytes // 1000))
        add("M:23", "hash_to_exp", [lab], "hash_to_exp-%dk" % (nbytes // 1000))
        add(bctx, "schnorr_verify", [es3[0], None, [es3[1], "5", "7"], lab], "schnorr_verify-label%dk" % (nbytes // 1000))
    nbig = 3000 if env.quick else 12000
    esb = [str(rnd_member(r, "B:2039")) for _ in range(nbig)]
    csb = [[esb[i], esb[(7 * i + 1) % nbig]] for i in range(nbig)]
    add("B:2039", "shuffle_us", ["4", csb, list(reversed(csb)), esb, str(nbig), "x:6c"], "shuffle_us-N%d" % nbig)
    add("B:2039", "ser_vec_c", [csb], "ser-N%d" % nbig)
    add("M:2039", "ser_vec_e", [esb], "ser-N%d" % nbig)
    add("M:2039", "generators", [str(nbig // 3), "x:62"], "generators-N%d" % (nbig // 3))
    seq_out1 = env.harness(corpus)
    # decode what was encoded (items produced by the sequential build)
    dec = []
    for c, o in zip(corpus, seq_out1):
        if c["op"].startswith("ser_vec"):
            dec.append({"ctx": c["ctx"], "op": "de_" + c["op"][4:], "args": [o], "tag": "de"})
            if len(wire.unhx(o)) > 12:
                b = bytearray(wire.unhx(o)); b[len(b) // 2] ^= 0x40
                dec.append({"ctx": c["ctx"], "op": "de_" + c["op"][4:], "args": [hexb(bytes(b))], "tag": "de-mutated"})
    # structural surgery on Vec<Vec<u8>> encodings (u32 count, then per item u32 length + bytes): an item carrying a
    # surplus byte inside its own length, a shortened item, a bumped count, two items swapped — decoded by both builds
    import struct
    def svec_parse(b):
        n = struct.unpack_from("<I", b, 0)[0]; off = 4; items_ = []
        for _ in range(n):
            ln = struct.unpack_from("<I", b, off)[0]; items_.append(b[off + 4: off + 4 + ln]); off += 4 + ln
        return items_ if off == len(b) else None
    def svec_build(items_, count=None):
        return struct.pack("<I", len(items_) if count is None else count) + b"".join(struct.pack("<I", len(x)) + x for x in items_)
    for c, o in zip(list(corpus), seq_out1):
        if not c["op"].startswith("ser_vec") or not isinstance(o, str) or len(o) > 20000:
            continue
        its = svec_parse(wire.unhx(o))
        if not its:
            continue
        dop = "de_" + c["op"][4:]
        def surgery(b_, tg):
            dec.append({"ctx": c["ctx"], "op": dop, "args": [hexb(b_)], "tag": "de-surgery-" + tg})
        for i in sorted({0, len(its) - 1, len(its) // 2}):
            v = list(its); v[i] = v[i] + b"\x00"; surgery(svec_build(v), "item+1byte")
            v = list(its); v[i] = v[i] + v[i][-1:] * 2; surgery(svec_build(v), "item+2bytes")
            if len(its[i]) > 0:
                v = list(its); v[i] = v[i][:-1]; surgery(svec_build(v), "item-1byte")
        surgery(svec_build(its, count=len(its) + 1), "count+1")
        surgery(svec_build(its) + b"\x00", "trailing-byte")
        if len(its) >= 2:
            v = list(its); v[0], v[-1] = v[-1], v[0]; surgery(svec_build(v), "swapped")
    corpus += dec
    # proofs: honest and mutated
    specs = []
    for ctx in ("B:%d" % P62, "M:%d" % P62):
        for n in ([1, 2, 10, 50] if env.quick else [1, 2, 10, 50, 300]):
            specs.append({"ctx": ctx, "n": n, "perm": None, "label": "x:72"})
    it2 = shuf.make_statements(env, specs)
    live = shuf.prove(env, specs, it2)
    for sp in live:
        P_, q_, g_ = pq(sp["ctx"]); fl = sp["ctx"][0]
        corpus.append(shuf.check_case(sp, tag="check-honest"))
        pf = wire.parse_proof(fl, wire.unhx(sp["_proof"]))
        for k in ("s_hats", "t_hats", "cs", "c_hats", "s_primes"):
            # every index for N <= 50 (a parallel verifier that splits the per-ciphertext equations into per-thread
            # blocks must not lose a remainder), a random one above
            for i in (range(sp["n"]) if sp["n"] <= 50 else [r.randrange(sp["n"]), sp["n"] - 1]):
                m = copy.deepcopy(pf); m[k][i] = (m[k][i] + 1) % q_ if k in ("s_hats", "s_primes") else (m[k][i] * g_) % P_
                corpus.append(shuf.check_case(sp, proof=wire.hx(wire.proof_bytes(fl, m)), tag="check-mutated-%s[%d]" % (k, i)))
        corpus.append({"ctx": sp["ctx"], "op": "shuffle_challenge", "args": [sp["_pk"], sp["_es"], sp["_out"], sp["_proof"], "x:72"], "tag": "shuffle_challenge"})
        # batch verification
        if sp["n"] <= 50:
            o = env.harness([{"ctx": sp["ctx"], "op": "km_decryption_factor_many", "args": [str(sp["_sk"]), sp["_out"], "x:", script(r, 64 * sp["n"] + 256)], "tag": "prep"}])[0]
            corpus.append({"ctx": sp["ctx"], "op": "verify_decryption_factors", "args": [sp["_pk"], sp["_out"], o[0], o[1], "x:"], "tag": "batch-verify"})
            if sp["n"] >= 2:
                bad = list(o[0]); bad[-1] = bad[0]
                corpus.append({"ctx": sp["ctx"], "op": "verify_decryption_factors", "args": [sp["_pk"], sp["_out"], bad, o[1], "x:"], "tag": "batch-verify-bad"})
    ref = env.harness(corpus)
    for c, o in zip(corpus, ref):
        if c["tag"] == "check-honest" and o is not True:
            env.violation("sequential build rejects an honest proof", {"kind": "battery", "case": c})
        if c["tag"].startswith("check-mutated") and o is True:
            env.violation("sequential build accepts a mutated proof (%s)" % c["tag"], {"kind": "battery", "case": c})
    n_cmp = 0
    for threads in (1, 2, 3, 7, 16):
        for rep in range(2 if not env.quick or threads in (2, 7) else 1):
            out = env.harness(corpus, features=("rayon",), env_extra={"RAYON_NUM_THREADS": str(threads)})
            for c, a, b in zip(corpus, ref, out):
                n_cmp += 1
                if a != b:
                    env.violation("rayon build (threads=%d) differs from the sequential build on %s %s" % (threads, c["op"], c["tag"]),
                                  {"kind": "battery", "case": c, "sequential": a, "rayon": b, "threads": threads})
                    break
    env.note("%d (operation, thread-count, repetition) comparisons between builds" % n_cmp)
    # produced by the rayon build, consumed by the sequential build
    for ctx in ("B:%d" % P62, "M:%d" % P62, "R"):
        for n in (1, 5, 40 if env.quick else 200):
            if ctx == "R":
                L = 2 ** 252 + 27742317777372353535851937790883648493
                els = env.harness([{"ctx": "R", "op": "gpow", "args": [str(r.randrange(L))]} for _ in range(2 * n)])
                es = [[els[2 * i], els[2 * i + 1]] for i in range(n)]
                sk = "31337"; pk = env.harness([{"ctx": "R", "op": "pk_of_sk", "args": [sk]}])[0]
            else:
                P_, q_, g_ = pq(ctx); skv = r.randrange(1, q_); sk = str(skv); pk = str(pow(g_, skv, P_))
                es = [[str(rnd_member(r, ctx)), str(rnd_member(r, ctx))] for _ in range(n)]
            gens = env.harness([{"ctx": ctx, "op": "generators", "args": [str(n + 1), "x:"], "tag": "cross"}], features=("rayon",), env_extra={"RAYON_NUM_THREADS": "7"})[0]
            sh = env.harness([{"ctx": ctx, "op": "gen_shuffle", "args": [pk, es, "x:"], "tag": "cross"}], features=("rayon",), env_extra={"RAYON_NUM_THREADS": "7"})[0]
            out, rs, perm = sh[0], sh[1], sh[2]
            pr = env.harness([{"ctx": ctx, "op": "gen_proof", "args": [pk, gens, es, out, rs, perm, "x:63", "x:"], "tag": "cross"}], features=("rayon",), env_extra={"RAYON_NUM_THREADS": "3"})[0]
            ck = {"ctx": ctx, "op": "check_proof", "args": [pk, gens, pr[0], es, out, "x:63"], "tag": "cross"}
            if env.harness([ck])[0] is not True:
                env.violation("proof produced by the rayon build is rejected by the sequential build on %s N=%d" % (ctx, n), {"kind": "battery", "case": ck})
            d = env.harness([{"ctx": ctx, "op": "decrypt", "args": [sk, c]} for c in es + out])
            if sorted(map(str, d[:n])) != sorted(map(str, d[n:])) or sorted(perm) != list(range(n)):
                env.violation("shuffle produced by the rayon build is not a re-encrypted permutation on %s N=%d" % (ctx, n), {"kind": "battery", "case": {"ctx": ctx, "n": n}})
            # and the other direction
            sh2 = env.harness([{"ctx": ctx, "op": "gen_shuffle", "args": [pk, es, script(r, 80 * n + 512)], "tag": "cross"}])[0]
            pr2 = env.harness([{"ctx": ctx, "op": "gen_proof", "args": [pk, gens, es, sh2[0], sh2[1], sh2[2], "x:", script(r, 80 * (4 * n + 4) + 512)], "tag": "cross"}])[0]
            ck2 = {"ctx": ctx, "op": "check_proof", "args": [pk, gens, pr2[0], es, sh2[0], "x:"], "tag": "cross"}
            if env.harness([ck2], features=("rayon",), env_extra={"RAYON_NUM_THREADS": "16"})[0] is not True:
                env.violation("proof produced by the sequential build is rejected by the rayon build on %s N=%d" % (ctx, n), {"kind": "battery", "case": ck2})
    # randomised list operations of the rayon build stay position-aligned with their inputs: decryption factors and
    # proofs for a list of ciphertexts (schedule dependent: several thread counts, repeated)
    for ctx in ("B:%d" % P62, "M:%d" % P62):
        P_, q_, g_ = pq(ctx); skv = r.randrange(1, q_); pk = str(pow(g_, skv, P_))
        for n in (2, 24, 100 if env.quick else 400):
            cs = [[str(rnd_member(r, ctx)), str(rnd_member(r, ctx))] for _ in range(n)]
            want = [str(pow(int(c[1]), skv, P_)) for c in cs]
            for threads in (2, 3, 7, 16):
                for rep in range(2):
                    c_ = {"ctx": ctx, "op": "km_decryption_factor_many", "args": [str(skv), cs, "x:6c", script(r, 64)], "tag": "rayon-factor-many"}
                    o = env.harness([c_], features=("rayon",), env_extra={"RAYON_NUM_THREADS": str(threads)})[0]
                    if not isinstance(o, list) or o[0] != want:
                        env.violation("rayon build (threads=%d): decryption_factor_many output is not aligned with its input list on %s (n=%d)" % (threads, ctx, n),
                                      {"kind": "battery", "case": c_, "threads": threads, "out": o if not isinstance(o, list) else o[0][:6], "expected": want[:6]})
                        break
                    v = env.harness([{"ctx": ctx, "op": "verify_decryption_factors", "args": [pk, cs, o[0], o[1], "x:6c"], "tag": "rayon-factor-many-verify"}])[0]
                    if v is not True:
                        env.violation("rayon build (threads=%d): proofs returned by decryption_factor_many do not verify position by position on %s (n=%d): %s" % (threads, ctx, n, v),
                                      {"kind": "battery", "case": c_, "threads": threads})
                        break
    # a sample of rayon outputs against the model
    sample = [c for c in corpus if c["op"] in ("ser_vec_e", "ser_vec_c", "shuffle_us", "joint_dec_many", "generators", "de_vec_x") and len(str(c["args"])) < 20000][:40]
    so = env.harness(sample, features=("rayon",), env_extra={"RAYON_NUM_THREADS": "7"})
    fails = env.tie([(c, c["ctx"], c["op"], c["args"], o) for c, o in zip(sample, so)], "C19-rayon-vs-model", shard=10)
    if fails:
        env.tie_violation("C19", fails)
