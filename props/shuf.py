# shared pipeline for the shuffle properties: generators -> ciphertexts -> shuffle -> proof
import itertools
from props.util import *


def make_statements(env, specs):
    """specs: list of dict(ctx, n, perm (list or None = library-drawn), seed(hex), label(hex), dup(bool)).
    Returns list of dict with generators, es, pk, sk, shuffle outputs, proof bytes; plus tie items."""
    r = env.rng
    items = []
    st = []
    c1 = []
    for sp in specs:
        ctx = sp["ctx"]; p, q, g = pq(ctx)
        sk = sp.get("sk", r.randrange(q))
        sp["_sk"] = sk; sp["_pk"] = str(pow(g, sk, p))
        c1.append({"ctx": ctx, "op": "generators", "args": [str(sp["n"] + 1), sp.get("seed", "x:")], "tag": "generators"})
    o1 = env.harness(c1)
    c2 = []
    for sp, c, gens in zip(specs, c1, o1):
        ctx = sp["ctx"]; p, q, g = pq(ctx)
        if not sp.get("_notie"):
            items.append((c, ctx, "generators", c["args"], gens))
        sp["_gens"] = gens
        es = []
        for i in range(sp["n"]):
            if sp.get("dup") and i > 0 and i % 2 == 1:
                es.append(es[-1])
            elif sp.get("identity") and i == 0:
                es.append(["1", "1"])
            else:
                es.append([str(rnd_member(r, ctx)), str(rnd_member(r, ctx))])
        sp["_es"] = es
        sc = script(r, 64 * sp["n"] + 4096 + (300 * sp["n"] if ctx.endswith("2048") else 0))
        if sp.get("perm") is None:
            c2.append({"ctx": ctx, "op": "gen_shuffle", "args": [sp["_pk"], es, sc], "tag": "gen_shuffle"})
        else:
            c2.append({"ctx": ctx, "op": "apply_permutation", "args": [sp["_pk"], [int(x) for x in sp["perm"]], es, sc], "tag": "apply_permutation"})
    o2 = env.harness(c2)
    c3 = []
    for sp, c, o in zip(specs, c2, o2):
        ctx = sp["ctx"]
        if not isinstance(o, list):
            env.violation("%s failed on %s: %s" % (c["op"], ctx, o), {"kind": "battery", "case": c, "out": o})
            sp["_bad"] = True; continue
        if c["op"] == "gen_shuffle":
            out, rs, perm, lperm, lrs, used = o
            if perm != lperm or rs != lrs:
                env.violation("gen_shuffle does not use the permutation / exponents its RNG draws yield on %s" % ctx,
                              {"kind": "battery", "case": c, "out": o})
            sp["_permcase"] = {"ctx": ctx, "op": "gen_permutation", "args": [str(sp["n"]), c["args"][2]], "tag": "gen_permutation"}
        else:
            out, rs, draws, used = o
            perm = c["args"][1]
            if rs != draws:
                env.violation("apply_permutation returns exponents that are not its RNG draws on %s" % ctx, {"kind": "battery", "case": c, "out": o})
        sp["_out"] = out; sp["_rs"] = rs; sp["_perm"] = perm
        if not sp.get("_notie"):
            items.append((c, ctx, "apply_permutation_r", [sp["_pk"], [str(x) for x in perm], sp["_es"], rs], [out, rs]))
    pc = [sp["_permcase"] for sp in specs if "_permcase" in sp and not sp.get("_notie")]
    for c, o in zip(pc, env.harness(pc)):
        items.append((c, c["ctx"], "gen_permutation", c["args"], o))
    return items


def prove(env, specs, items):
    r = env.rng
    c3 = []
    live = [sp for sp in specs if not sp.get("_bad") and sp["n"] >= 1]
    for sp in live:
        ctx = sp["ctx"]
        sc = script(r, (4 * sp["n"] + 4) * (600 if ctx.endswith("2048") else 80) + 1024)
        c3.append({"ctx": ctx, "op": "gen_proof", "args": [sp["_pk"], sp["_gens"], sp["_es"], sp["_out"], sp["_rs"], [int(x) for x in sp["_perm"]], sp.get("label", "x:"), sc], "tag": "gen_proof"})
    o3 = env.harness(c3)
    for sp, c, o in zip(live, c3, o3):
        if not isinstance(o, list):
            env.violation("gen_proof failed on %s (N=%d): %s" % (sp["ctx"], sp["n"], o), {"kind": "battery", "case": c, "out": o})
            sp["_bad"] = True; continue
        sp["_proof"] = o[0]; sp["_draws"] = o[1]
        a = c["args"]
        items.append((c, sp["ctx"], "gen_proof_r", [a[0], a[1], a[2], a[3], a[4], [str(x) for x in a[5]], a[6], o[1]], o[0]))
    return [sp for sp in live if not sp.get("_bad")]


def check_case(sp, proof=None, es=None, out=None, label=None, pk=None, gens=None, tag="check"):
    pick = lambda v, d: d if v is None else v
    return {"ctx": sp["ctx"], "op": "check_proof",
            "args": [pick(pk, sp["_pk"]), pick(gens, sp["_gens"]), pick(proof, sp["_proof"]), pick(es, sp["_es"]),
                     pick(out, sp["_out"]), pick(label, sp.get("label", "x:"))],
            "tag": tag}
