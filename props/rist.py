# Ristretto correspondence: every harness case a property module runs on ctx "R" is mapped to the matching
# operation of the Gallina ristretto model (Model/ExecR.v) and compared inside Coq. Scripted prover calls are
# mapped to the model's explicit-randomness form using the draws the harness learned from the same script.
# A model scalar multiplication costs ~0.25 s, so each check ties a budgeted, op-balanced subset (all of it in
# most modules); the budget and what was skipped are written to the evidence.

DIRECT = {
    "gen", "one", "emul", "emulp", "emodp", "cmodulo", "einvp", "edivp", "epow", "gpow", "eeq",
    "xadd", "xsub", "xmul", "xmodq", "cexpmodulo", "xinvq", "xdivq", "xsubmod", "xfrom_u64", "xzero", "xone",
    "hash_to_exp", "encode", "decode", "e_from_bytes", "x_from_bytes",
    "ser_e", "de_e", "ser_x", "de_x", "ser_p", "de_p", "ser_c", "de_c", "ser_pk", "de_pk", "de_sk",
    "ser_schnorr", "de_schnorr", "ser_cp", "de_cp", "ser_vec_e", "de_vec_e", "ser_vec_x", "de_vec_x",
    "ser_vec_c", "de_vec_c", "de_vec_p", "de_vec_cp", "de_proof", "de_plain_vec_c",
    "encrypt_r", "decrypt", "pk_of_sk", "decryption_factor", "decrypt_exp",
    "schnorr_verify", "cp_verify", "popk_verify", "verify_decryption",
    "generators", "check_proof", "shuffle_us", "shuffle_challenge",
    "km_verify_share", "combine_pks", "joint_dec", "joint_dec_many", "verify_decryption_factors",
    "eval_poly", "compute_peer_share", "verification_key_factor", "lagrange",
    "rnd_exp", "rnd", "rnd_plaintext", "gen_permutation",
}


def _islist(o, n):
    return isinstance(o, list) and len(o) >= n


def to_item(c, o):
    """(model_op, model_args, expected) for a ristretto harness case and its output, or None if not tied."""
    op, a = c["op"], c["args"]
    if op.startswith("peak:") or isinstance(o, dict):
        return None
    if op in DIRECT:
        if op == "de_sk" and _islist(o, 2):
            return (op, a, o)
        return (op, a, o)
    if op == "raw_from_uniform":
        return ("from_uniform", a, o)
    if op == "encrypt":
        return ("encrypt_r", [a[0], a[1], o[1][0]], o[0]) if _islist(o, 2) else None
    if op == "encrypt_exponential":
        return ("encrypt_exponential_r", [a[0], a[1], o[1][0]], o[0]) if _islist(o, 2) else None
    if op == "encrypt_and_pok":
        return ("encrypt_and_pok_r", [a[0], a[1], a[2], o[3][0], o[3][1]], [o[0], o[1]]) if _islist(o, 4) else None
    if op == "decrypt_and_prove":
        return ("decrypt_and_prove_r", [a[0], a[1], a[2], o[2][0]], [o[0], o[1]]) if _islist(o, 3) else None
    if op == "encrypt_exp":
        if _islist(o, 2):
            return ("encrypt_exp_r", [a[0], a[1], o[1][0], o[1][1]], o[0])
        return ("encrypt_exp_r", [a[0], a[1], "0", "0"], o)
    if op == "schnorr_prove":
        return ("schnorr_prove_r", a[:4] + [o[1][0]], o[0]) if _islist(o, 2) else None
    if op == "popk":
        return ("popk_r", a[:4] + [o[1][0]], o[0]) if _islist(o, 2) else None
    if op == "cp_prove":
        return ("cp_prove_r", a[:6] + [o[1][0]], o[0]) if _islist(o, 2) else None
    if op == "dec_proof":
        return ("dec_proof_r", a[:6] + [o[1][0]], o[0]) if _islist(o, 2) else None
    if op == "apply_permutation":
        return ("apply_permutation_r", [a[0], a[1], a[2], o[2]], [o[0], o[1]]) if _islist(o, 3) else None
    if op == "gen_shuffle":
        # [out, rs, perm, learned perm, learned rs, used]
        return ("apply_permutation_r", [a[0], o[2], a[1], o[4]], [o[0], o[1]]) if _islist(o, 5) else None
    if op == "gen_proof":
        return ("gen_proof_r", a[:7] + [o[1]], o[0]) if _islist(o, 2) else None
    if op == "km_share":
        return ("km_share_r", [a[0], a[1], o[2][0]], [o[0], o[1]]) if _islist(o, 3) else None
    if op == "km_decryption_factor":
        return ("km_decryption_factor_r", [a[0], a[1], a[2], o[2][0]], [o[0], o[1]]) if _islist(o, 3) else None
    if op == "gen_coefficients":
        return ("gen_coefficients_r", [o[2]], [o[0], o[1]]) if _islist(o, 3) else None
    if op == "th_decryption_factor":
        return ("th_decryption_factor_r", [a[0], a[1], a[2], a[3], o[2][0]], [o[0], o[1]]) if _islist(o, 3) else None
    return None


def _nel(v):
    """number of 32-byte element encodings inside a JSON value"""
    if isinstance(v, str):
        return 1 if v.startswith("x:") and len(v) == 66 else 0
    if isinstance(v, list):
        return sum(_nel(x) for x in v)
    return 0


def cost(c, o):
    """rough model cost in scalar-multiplication units (0.25 s each)"""
    op, a = c["op"], c["args"]
    n = 0.4 * (_nel(a) + _nel(o)) + 0.05
    if op in ("gpow", "epow", "pk_of_sk", "decrypt", "decryption_factor", "schnorr_prove", "popk", "km_share"):
        n += 1
    elif op in ("encrypt_r", "encrypt", "encrypt_exponential", "schnorr_verify", "popk_verify", "cp_prove", "dec_proof",
                "km_verify_share", "th_decryption_factor", "km_decryption_factor"):
        n += 2
    elif op in ("encrypt_and_pok", "decrypt_and_prove"):
        n += 3
    elif op in ("cp_verify", "verify_decryption"):
        n += 4
    elif op in ("encode",):
        n += 2
    elif op in ("encrypt_exp", "decrypt_exp"):
        n += 8
    elif op == "generators":
        n += 1.0 * int(a[0])
    elif op in ("rnd", "raw_from_uniform"):
        n += 1
    elif op in ("apply_permutation", "gen_shuffle"):
        n += 2 * len(a[2] if op == "apply_permutation" else a[1])
    elif op == "gen_proof":
        n += 12 * len(a[2]) + 6
    elif op == "check_proof":
        n += 12 * len(a[3]) + 12
    elif op in ("shuffle_us", "shuffle_challenge"):
        n += 0.01 * len(str(a))
    elif op == "verify_decryption_factors":
        n += 4 * len(a[1])
    elif op in ("joint_dec_many",):
        n += 0.2
    elif op == "verification_key_factor":
        n += 1.0 * len(a[0])
    elif op == "gen_coefficients":
        n += 1.0 * int(a[0])
    return n


def select(log, budget):
    """log: list of (case, out). Returns (items, skipped_count, spent): an op-balanced selection within the budget."""
    groups = {}
    for c, o in log:
        it = to_item(c, o)
        if it is None:
            continue
        groups.setdefault(c["op"], []).append((c, o, it, cost(c, o)))
    order = sorted(groups)
    picked, spent, skipped = [], 0.0, 0
    idx = {k: 0 for k in order}
    active = list(order)
    seen = set()
    while active:
        nxt = []
        for k in active:
            g = groups[k]
            i = idx[k]
            if i >= len(g):
                continue
            c, o, it, w = g[i]
            idx[k] = i + 1
            key = repr((it[0], it[1]))
            if key in seen:
                nxt.append(k)
                continue
            if spent + w > budget and picked:
                skipped += 1
                nxt.append(k)
                continue
            seen.add(key)
            spent += w
            picked.append((c, "R", it[0], it[1], it[2]))
            nxt.append(k)
        active = [k for k in nxt if idx[k] < len(groups[k])]
    return picked, skipped, spent
