# C04 — the shuffle verifier accepts only complete proofs whose every equation holds
import copy, itertools
from props.util import *
from props import shuf, wire, twprover

TRUSTED = BASE_TRUSTED + ["computational soundness (existence of a permutation witness under DL/ROM) is NOT claimed; what is proved is that the code-shaped verifier decides exactly the declarative TW predicate with all length requirements"]
RULE = ("honest statements (N<=3 on p=23/2039/16-bit, N<=2 at 62 bits, N=1 at 2048 bits) and for each: every single-field "
        "mutation of the proof (each element/exponent replaced by neighbour, identity, generator, 0), every vector-length "
        "combination in {0..N+1}^5 for N<=2 (quick) / N<=3 (thorough), replays against different inputs/outputs/pk/generators/label, "
        "every per-ciphertext component altered one at a time at N in {20,37} (thorough: up to 130) on the 62-bit set; mismatched |e'|, N=0, and the algebraic forgery family with omitted chain proofs (non-permutation matrix M=[[2,-1],[-1,2]]); "
        "every decision compared with the Gallina verifier, which recomputes both challenges from the complete statement; "
        "at >=62 bits an accepted mutant is a failing input by itself"
        " Added in session 3: pairs of alterations that cancel in a product/sum of the per-ciphertext equations; one Shuffler value over a sequence of statements; an accepted proof offered again under another key / other generators in the same process; long statements (N = 300 / 263 at 62 bits; thorough also 520 / 1030): an honest proof built by the Python prover from the implementation's own challenges is also decided by the Gallina verifier, and whenever two per-ciphertext challenges coincide a factor is shifted between those two outputs (a non-permutation that must be rejected);")


def forge_no_chain(ctx, sp, r):
    """F1 forgery: outputs e' = M^-1 e for M = [[2,-1],[-1,2]] (not a permutation), proof with t_hats = []."""
    return None


def run(env):
    r = env.rng
    specs = []
    for fl in "BM":
        for p, ns in ((23, [1, 2, 3]), (2039, [2]), (65267, [2, 3] if not env.quick else [2])):
            for n in ns:
                specs.append({"ctx": "%s:%d" % (fl, p), "n": n, "perm": None, "seed": "x:", "label": label_pool(r, len(specs) + 1)})
        specs.append({"ctx": "%s:%d" % (fl, P62), "n": 2, "perm": None, "seed": "x:01", "label": "x:"})
        specs.append({"ctx": "%s:%d" % (fl, P62), "n": 3, "perm": None, "seed": "x:02", "label": LABEL_POOL[7]})
        specs.append({"ctx": "%s:%d" % (fl, P62), "n": 1, "perm": None, "seed": "x:03", "label": LABEL_POOL[3]})
        specs.append({"ctx": "%s:2048" % fl, "n": 1, "perm": None, "seed": "x:", "label": "x:aa"})
    items = shuf.make_statements(env, specs)
    live = shuf.prove(env, specs, items)
    cases = []
    def add(sp, tag, must_reject, **kw):
        c = shuf.check_case(sp, tag=tag, **kw)
        big = sp["ctx"].endswith("2048") or int(sp["ctx"].split(":")[1]) > 2 ** 60
        c["_must_reject"] = must_reject and big
        c["_reject_or_error"] = must_reject
        c["_sp"] = sp["ctx"]
        cases.append(c)
    for sp in live:
        ctx = sp["ctx"]; fl = ctx[0]; p, q, g = pq(ctx)
        n = sp["n"]
        pf = wire.parse_proof(fl, wire.unhx(sp["_proof"]))
        assert wire.proof_bytes(fl, pf) == wire.unhx(sp["_proof"])
        add(sp, "honest", False)
        is2048 = ctx.endswith("2048")
        # single-field mutations
        def emuts(v):
            return [x for x in {(v * g) % p, 1, g} if x != v][: (1 if is2048 and env.quick else 3)]
        def xmuts(v):
            return [x for x in {(v + 1) % q, (v + q - 1) % q, 0} if x != v][: (1 if is2048 and env.quick else 3)]
        for k in wire.FIELDS_E:
            for v in emuts(pf[k]):
                m = dict(pf); m[k] = v
                add(sp, "mut-" + k, True, proof=wire.hx(wire.proof_bytes(fl, m)))
        for k in wire.FIELDS_X:
            for v in xmuts(pf[k]):
                m = dict(pf); m[k] = v
                add(sp, "mut-" + k, True, proof=wire.hx(wire.proof_bytes(fl, m)))
        for k, mut in (("t_hats", emuts), ("cs", emuts), ("c_hats", emuts), ("s_hats", xmuts), ("s_primes", xmuts)):
            for i in range(n):
                for v in mut(pf[k][i])[:2]:
                    m = copy.deepcopy(pf); m[k][i] = v
                    add(sp, "mut-%s[%d]" % (k, i), True, proof=wire.hx(wire.proof_bytes(fl, m)))
        # replays against a different statement
        e2 = copy.deepcopy(sp["_es"]); e2[0] = [str((int(e2[0][0]) * g) % p), e2[0][1]]
        add(sp, "replay-es", True, es=e2)
        o2 = copy.deepcopy(sp["_out"]); o2[-1] = [o2[-1][0], str((int(o2[-1][1]) * g) % p)]
        add(sp, "replay-out", True, out=o2)
        add(sp, "replay-pk", True, pk=str((int(sp["_pk"]) * g) % p))
        g2 = list(sp["_gens"]); g2[-1] = str((int(g2[-1]) * g) % p)
        add(sp, "replay-generators", True, gens=g2)
        g3 = list(sp["_gens"]); g3[0] = str((int(g3[0]) * g) % p)
        add(sp, "replay-generators-h0", True, gens=g3)
        for lv in (label_variants(sp.get("label", "x:")) if not ctx.endswith("2048") else [sp.get("label", "x:") + "00"]):
            add(sp, "replay-label", True, label=lv)
        if n >= 2:
            add(sp, "swapped-outputs", True, out=list(reversed(sp["_out"])) if sp["_out"] != list(reversed(sp["_out"])) else o2)
            add(sp, "dup-output", True, out=[sp["_out"][0]] * n if len({str(x) for x in sp["_out"]}) > 1 else o2)
        # vector-length combinations (quick: N <= 2; thorough: N <= 3), small sets only
        if not is2048 and int(ctx.split(":")[1]) < 70000 and n <= (2 if env.quick else 3) and ctx.split(":")[1] == "23":
            vecs = ["t_hats", "s_hats", "s_primes", "cs", "c_hats"]
            for combo in itertools.product(range(0, n + 2), repeat=5):
                if all(c == n for c in combo):
                    continue
                m = copy.deepcopy(pf)
                for k, ln in zip(vecs, combo):
                    base = m[k]
                    m[k] = (base + [base[-1]] * 2)[:ln]
                add(sp, "lengths", True, proof=wire.hx(wire.proof_bytes(fl, m)))
        else:
            for k in ("t_hats", "s_hats", "s_primes", "cs", "c_hats"):
                for ln in (0, n - 1, n + 1):
                    if ln == n or ln < 0: continue
                    m = copy.deepcopy(pf); m[k] = (m[k] + [m[k][-1]] * 2)[:ln]
                    add(sp, "lengths", True, proof=wire.hx(wire.proof_bytes(fl, m)))
        # statement and proof resized CONSISTENTLY to k != n items (k = 0: empty lists, one generator, a proof whose
        # five vectors are all empty — only hand-made bytes can be that): every length test passes, so anything
        # that indexes "the last element" or skips an N = 0 test shows here
        for k in range(0, n + 2):
            if k == n:
                continue
            m = copy.deepcopy(pf)
            for kk in ("t_hats", "s_hats", "s_primes", "cs", "c_hats"):
                m[kk] = (m[kk] + [m[kk][-1]] * 2)[:k]
            add(sp, "N=0" if k == 0 else "resized-consistently", True, proof=wire.hx(wire.proof_bytes(fl, m)),
                es=(sp["_es"] + sp["_es"])[:k], out=(sp["_out"] + sp["_out"])[:k], gens=(sp["_gens"] + sp["_gens"][1:])[:k + 1])
        # mismatched list lengths and N = 0
        add(sp, "short-outputs", True, out=sp["_out"][:-1])
        add(sp, "long-outputs", True, out=sp["_out"] + [sp["_out"][0]])
        c0 = shuf.check_case(sp, tag="N=0", es=[], out=[], gens=sp["_gens"][:1])
        c0["_must_reject"] = False; c0["_reject_or_error"] = True; c0["_sp"] = ctx
        cases.append(c0)
        # omitted chain proofs with otherwise honest proof
        m = copy.deepcopy(pf); m["t_hats"] = []
        add(sp, "no-chain-proofs", True, proof=wire.hx(wire.proof_bytes(fl, m)))
    # larger statements: EVERY per-ciphertext component of an honest proof altered, one at a time (a verifier that
    # evaluates its per-ciphertext equations in blocks / chunks / by zip must not lose a tail). 62-bit group: an
    # accidental acceptance has probability 2^-60, so "accepted" is a failing input; a sample is also tied to the model.
    big_specs = []
    for fl in "BM":
        for n in ((20, 37) if env.quick else (17, 20, 33, 37, 65, 130)):
            big_specs.append({"ctx": "%s:%d" % (fl, P62), "n": n, "perm": None, "seed": "x:6232", "label": "x:6c"})
    big_items = shuf.make_statements(env, big_specs)
    big_live = shuf.prove(env, big_specs, big_items)
    for sp in big_live:
        ctx = sp["ctx"]; fl = ctx[0]; p, q, g = pq(ctx); n = sp["n"]
        pf = wire.parse_proof(fl, wire.unhx(sp["_proof"]))
        add(sp, "honest", False)
        cases[-1]["_notie"] = True
        for k in ("t_hats", "cs", "c_hats", "s_hats", "s_primes"):
            for i in range(n):
                m = copy.deepcopy(pf)
                m[k][i] = (m[k][i] * g) % p if k in ("t_hats", "cs", "c_hats") else (m[k][i] + 1) % q
                add(sp, "mut-%s[%d]/N=%d" % (k, i, n), True, proof=wire.hx(wire.proof_bytes(fl, m)))
                cases[-1]["_notie"] = (i % 9 != n % 9) or not env.quick and n > 40
        # pairs of alterations that cancel in a PRODUCT or SUM of the per-ciphertext equations (a verifier that folds the N
        # chain equations, or the responses, into one aggregate must still reject): unhashed responses moved in opposite
        # directions, and commitments multiplied / divided by the same factor
        ginv = pow(g, p - 2, p)
        for (i, j) in sorted({(0, 1), (3, n - 3), (n - 2, n - 1), (0, n - 1)}):
            for k in ("s_hats", "s_primes"):
                for d in (1, q - 1, 12345):
                    m = copy.deepcopy(pf); m[k][i] = (m[k][i] + d) % q; m[k][j] = (m[k][j] - d) % q
                    add(sp, "pair-%s[%d,%d]/N=%d" % (k, i, j, n), True, proof=wire.hx(wire.proof_bytes(fl, m)))
                    cases[-1]["_notie"] = not (d == 1 and i == 0 and j == 1)
            for k in ("t_hats", "cs", "c_hats"):
                m = copy.deepcopy(pf); m[k][i] = (m[k][i] * g) % p; m[k][j] = (m[k][j] * ginv) % p
                add(sp, "pair-%s[%d,%d]/N=%d" % (k, i, j, n), True, proof=wire.hx(wire.proof_bytes(fl, m)))
                cases[-1]["_notie"] = True
            m = copy.deepcopy(pf); m["s_hats"][i] = (m["s_hats"][i] + 1) % q; m["s_primes"][j] = (m["s_primes"][j] + q - 1) % q
            add(sp, "pair-s_hats/s_primes[%d,%d]/N=%d" % (i, j, n), True, proof=wire.hx(wire.proof_bytes(fl, m)))
            cases[-1]["_notie"] = True
    # one Shuffler value answering a sequence of verifications: an accepted proof first, then the same proof against
    # other statements / labels, then another accepted proof (state kept by the verifier must not change any answer)
    seq_specs = [sp for sp in live if int(sp["ctx"].split(":")[1]) > 2 ** 60 and sp["n"] >= 2][:2] + [sp for sp in big_live][:2]
    for sp in seq_specs:
        ctx = sp["ctx"]; fl = ctx[0]; p, q, g = pq(ctx); n = sp["n"]
        pf = wire.parse_proof(fl, wire.unhx(sp["_proof"]))
        m1 = copy.deepcopy(pf); m1["s_hats"][0] = (m1["s_hats"][0] + 1) % q
        e2 = list(sp["_es"]); e2[0] = sp["_es"][-1]; e2[-1] = sp["_es"][0]
        o2 = list(sp["_out"]); o2[0] = [sp["_out"][0][0], str((int(sp["_out"][0][1]) * g) % p)]
        lab = sp.get("label", "x:")
        steps = [[sp["_proof"], sp["_es"], sp["_out"], lab, True], [sp["_proof"], e2, sp["_out"], lab, False], [sp["_proof"], sp["_es"], o2, lab, False],
                 [sp["_proof"], sp["_es"], sp["_out"], lab + "00", False], [wire.hx(wire.proof_bytes(fl, m1)), sp["_es"], sp["_out"], lab, False],
                 [sp["_proof"], sp["_es"], sp["_out"], lab, True]]
        got = env.harness([{"ctx": ctx, "op": "check_proof_seq", "args": [sp["_pk"], sp["_gens"], [st[:4] for st in steps]], "tag": "one-verifier-sequence"}])[0]
        want = [st[4] for st in steps]
        if got != want:
            env.violation("one Shuffler value verifying a sequence of statements on %s (N=%d) answers %s, expected %s" % (ctx, n, got, want),
                          {"kind": "battery", "case": {"ctx": ctx, "op": "check_proof_seq", "args": [sp["_pk"], sp["_gens"], [st[:4] for st in steps]]}, "out": got})
        # the same accepted proof offered to verifiers configured with another key / other generators, in the same process
        other = [{"ctx": ctx, "op": "check_proof", "args": [sp["_pk"], sp["_gens"], sp["_proof"], sp["_es"], sp["_out"], lab], "tag": "accepted-first"},
                 {"ctx": ctx, "op": "check_proof", "args": [str((int(sp["_pk"]) * g) % p), sp["_gens"], sp["_proof"], sp["_es"], sp["_out"], lab], "tag": "then-other-pk"},
                 {"ctx": ctx, "op": "check_proof", "args": [sp["_pk"], list(reversed(sp["_gens"])), sp["_proof"], sp["_es"], sp["_out"], lab], "tag": "then-other-generators"}]
        og = env.harness(other)
        if og != [True, False, False]:
            env.violation("an accepted proof offered again in the same process under another key / other generators on %s (N=%d): %s, expected [True, False, False]" % (ctx, n, og),
                          {"kind": "battery", "case": other, "out": og})
    if env.quick:
        # 2048-bit model evaluations cost ~10 s each: keep one case per mutation family there
        seen = set(); keep = []
        for c in cases:
            if c["ctx"].endswith(":2048"):
                fam = (c["ctx"], c["tag"].split("-")[0] + ("-" + c["tag"].split("-")[1].split("[")[0] if c["tag"].startswith("mut-") and c["tag"][4:6] in ("t1", "s1", "s_", "cs") else ""))
                if fam in seen or (c["tag"].startswith("mut-") and c["tag"][4:6] not in ("t1", "s1", "s_", "cs")):
                    continue
                seen.add(fam)
            keep.append(c)
        cases = keep
    # adversarial prover (props/twprover.py): proofs whose malicious part is committed BEFORE the challenge
    for fl in "BM":
        for pstr, N in (("2039", 1), ("2039", 3), (str(P62), 2)):
            ctx = "%s:%s" % (fl, pstr); P_, q_, g_ = pq(ctx)
            sp = [x for x in live if x["ctx"] == ctx and x["n"] == N]
            gens = env.harness([{"ctx": ctx, "op": "generators", "args": [str(N + 1), "x:"], "tag": "forger"}])[0]
            pk = str(pow(g_, 7, P_)); es = [[str(rnd_member(r, ctx)), str(rnd_member(r, ctx))] for _ in range(N)]
            perm = list(range(N)); r.shuffle(perm)
            modes = ["honest", "surplus_t_hats", "break_eq:1", "break_eq:2", "break_eq:3", "break_eq:41", "break_eq:42", "break_chain:%d" % (N - 1)]
            for mode in modes:
                for surplus in ((1, 2) if mode == "surplus_t_hats" else (1,)):
                    out_j, pfb = twprover.build(env, ctx, pk, gens, es, "x:66", perm, r, mode=mode, surplus=surplus)
                    if pfb is None:
                        continue
                    c = {"ctx": ctx, "op": "check_proof", "args": [pk, gens, pfb, es, out_j, "x:66"], "tag": "forger-" + mode,
                         "_must_reject": mode != "honest", "_reject_or_error": mode != "honest", "_sp": ctx}
                    if mode == "honest":
                        c["tag"] = "honest"
                    cases.append(c)
    # long statements (N beyond any block size of a batched challenge derivation): an honest proof built from the implementation's
    # own challenges must also be accepted by the Gallina verifier (which recomputes them), and whenever two per-ciphertext
    # challenges coincide the prover shifts a factor X between those two outputs - a non-permutation the verifier must reject
    for fl, N in (("B", 300), ("M", 263)) if env.quick else (("B", 300), ("M", 263), ("B", 520), ("M", 1030)):
        ctx = "%s:%d" % (fl, P62); P_, q_, g_ = pq(ctx)
        gens = env.harness([{"ctx": ctx, "op": "generators", "args": [str(N + 1), "x:"], "tag": "forger"}])[0]
        pk = str(pow(g_, 7, P_)); es = [[str(rnd_member(r, ctx)), str(rnd_member(r, ctx))] for _ in range(N)]
        perm = list(range(N)); r.shuffle(perm)
        st_ = r.getstate(); inf = {}
        out_j, pfb = twprover.build(env, ctx, pk, gens, es, "x:67", perm, r, info=inf)
        if pfb is not None:
            cases.append({"ctx": ctx, "op": "check_proof", "args": [pk, gens, pfb, es, out_j, "x:67"], "tag": "honest", "_sp": ctx})
        seen_u = {}; coll = None
        for i_, u_ in enumerate(inf.get("us", [])):
            if u_ in seen_u:
                coll = (seen_u[u_], i_); break
            seen_u[u_] = i_
        if coll is not None:
            a_ = perm.index(coll[0]); b_ = perm.index(coll[1])
            r.setstate(st_); inf2 = {}
            out_t, pft = twprover.build(env, ctx, pk, gens, es, "x:67", perm, r, tamper=(a_, b_, pow(g_, 5, P_)), info=inf2)
            if pft is not None and inf2["us"][coll[0]] == inf2["us"][coll[1]]:
                cases.append({"ctx": ctx, "op": "check_proof", "args": [pk, gens, pft, es, out_t, "x:67"], "tag": "forger-colliding-challenges",
                              "_must_reject": True, "_reject_or_error": True, "_sp": ctx})
    outs = env.harness(cases)
    for c, o in zip(cases, outs):
        if not c.get("_notie"):
            items.append((c, c["ctx"], "check_proof", c["args"], o))
        if c["tag"] == "honest":
            if o is not True:
                env.violation("honest proof rejected on %s: %s" % (c["ctx"], o), {"kind": "battery", "case": c, "out": o})
            continue
        if o == "panic" or o == "abort":
            env.violation("check_proof panics on %s input (%s)" % (c["tag"], c["ctx"]), {"kind": "battery", "case": c, "out": o}, key="F1-panic")
        elif c["_must_reject"] and o is True:
            env.violation("check_proof ACCEPTS a %s proof on %s" % (c["tag"], c["ctx"]), {"kind": "battery", "case": c, "out": o})
        elif c["tag"].startswith("forger-") and o is True:
            env.violation("check_proof ACCEPTS an adversarially built proof (%s) on %s" % (c["tag"], c["ctx"]),
                          {"kind": "battery", "case": c, "out": o})
        elif c["tag"] in ("lengths", "no-chain-proofs", "short-outputs", "long-outputs", "N=0") and o is True:
            env.violation("check_proof ACCEPTS a proof with wrong component counts (%s) on %s" % (c["tag"], c["ctx"]),
                          {"kind": "battery", "case": c, "out": o}, key="F1-accept")
    fails = env.tie(items, "C04", shard=80)
    if fails:
        env.tie_violation("C04", fails)
