# C07 — accepted decryption factors yield the true plaintext (verifiable decryption)
from props.util import *

TRUSTED = BASE_TRUSTED + ["soundness is proved as: decision characterisation, special soundness (extraction of one exponent for key and factor), uniqueness of the admissible challenge for a wrong factor; the hash itself is not assumed collision-free",
                          "ristretto under the group-law hypothesis (implementation-only runs)"]
RULE = ("all (sk, ciphertext) over the 121 ciphertexts of p=23 (quick: every sk, ciphertext slice) through decrypt_and_prove and "
        "verify_decryption; wrong factors (f*g, f^2, identity), proofs moved across ciphertext / key / label at 16/62/2048 "
        "bits; wrong factors with fresh hash-consistent proofs by a malicious key holder (factor gr^(sk+y) g^(ky) with witness "
        "sk+y for k in {1,-1,2,1/2}, wrong witness, wrong factor with its own proof); batches of size 1..8, 32, 64, 70, 128, 530, 1024 (thorough up to 2048; exact multiples of block sizes included, bad pair at every block boundary counted from both ends) with a single bad pair at every position through the crate-private "
        "Keymaker::verify_decryption_factors (hook); threshold::decryption_factor with share and verification key; "
        "every output and decision compared with the Gallina model")


def run(env):
    r = env.rng
    items = []
    st1 = []
    p = 23; q = 11; mem = members(p)
    for fl in "BM":
        ctx = "%s:23" % fl
        for sk in range(q):
            for a in (mem if not env.quick else mem[:: 3]):
                for b in mem:
                    st1.append({"ctx": ctx, "op": "decrypt_and_prove", "args": [str(sk), [str(a), str(b)], "x:", script(r, 256)], "tag": "exh", "_sk": sk})
    env.exhaustive = not env.quick
    for pstr, n in (("65267", 6 if env.quick else 30), (str(P62), 8 if env.quick else 40), ("2048", 1 if env.quick else 4)):
        for fl in "BM":
            ctx = "%s:%s" % (fl, pstr); P_, q_, g_ = pq(ctx)
            for i in range(n):
                sk = [0, 1, q_ - 1][i] if i < 3 and pstr != "2048" else r.randrange(q_)
                st1.append({"ctx": ctx, "op": "decrypt_and_prove", "args": [str(sk), [str(rnd_member(r, ctx)), str(rnd_member(r, ctx))], label_pool(r, i) if pstr != "2048" else hexb(r.randbytes(i % 5)), script(r, 1024)], "tag": "big", "_sk": sk})
                st1.append({"ctx": ctx, "op": "th_decryption_factor", "args": [[str(rnd_member(r, ctx)), str(rnd_member(r, ctx))], str(sk), str(pow(g_, sk, P_)), "x:7468", script(r, 1024)], "tag": "threshold", "_sk": sk})
    o1 = env.harness(st1)
    st2 = []
    for c, o in zip(st1, o1):
        ctx = c["ctx"]; P_, q_, g_ = pq(ctx); a = c["args"]
        if not isinstance(o, list):
            env.violation("%s failed on %s: %s" % (c["op"], ctx, o), {"kind": "battery", "case": c, "out": o}); continue
        if c["op"] == "decrypt_and_prove":
            d, pf, draws, used = o
            items.append((c, ctx, "decrypt_and_prove_r", a[:3] + draws[:1], [d, pf]))
            pk = str(pow(g_, c["_sk"], P_)); ct = a[1]
            f = str(pow(int(ct[1]), c["_sk"], P_))
            st2.append({"ctx": ctx, "op": "verify_decryption", "args": [pk, f, ct[0], ct[1], pf, a[2]], "_want": True, "_src": c, "tag": "verify-honest"})
            st2.append({"ctx": ctx, "op": "decrypt", "args": [str(c["_sk"]), ct], "_eq": d, "_src": c, "tag": "decrypt"})
            st2.append({"ctx": ctx, "op": "decryption_factor", "args": [str(c["_sk"]), ct], "_eq": f, "_src": c, "tag": "factor"})
            if c["tag"] == "big":
                big = pstr_big(ctx)
                for wf, tg in ((str((int(f) * g_) % P_), "wrong-factor*g"), (str(pow(int(f), 2, P_)), "wrong-factor^2"), ("1", "wrong-factor=1")):
                    if wf != f:
                        st2.append({"ctx": ctx, "op": "verify_decryption", "args": [pk, wf, ct[0], ct[1], pf, a[2]], "_want": False if big else None, "_src": c, "tag": tg})
                pfn = list(pf); pfn[2] = str(int(pf[2]) + q_)
                st2.append({"ctx": ctx, "op": "verify_decryption", "args": [pk, f, ct[0], ct[1], pfn, a[2]], "_want": False, "_src": c, "tag": "noncanonical-challenge"})
                st2.append({"ctx": ctx, "op": "verify_decryption", "args": [pk, f, str((int(ct[0]) * g_) % P_), ct[1], pf, a[2]], "_want": False if big else None, "_src": c, "tag": "other-ciphertext-mhr"})
                st2.append({"ctx": ctx, "op": "verify_decryption", "args": [pk, f, ct[0], str((int(ct[1]) * g_) % P_), pf, a[2]], "_want": False if big else None, "_src": c, "tag": "other-ciphertext-gr"})
                st2.append({"ctx": ctx, "op": "verify_decryption", "args": [str((int(pk) * g_) % P_), f, ct[0], ct[1], pf, a[2]], "_want": False if big else None, "_src": c, "tag": "other-key"})
                for lv in (label_variants(a[2]) if not ctx.endswith(":2048") else [a[2] + "aa"]):
                    st2.append({"ctx": ctx, "op": "verify_decryption", "args": [pk, f, ct[0], ct[1], pf, lv], "_want": False if big else None, "_src": c, "tag": "other-label"})
        else:
            f, pf, draws, used = o
            items.append((c, ctx, "th_decryption_factor_r", a[:4] + draws[:1], [f, pf]))
            st2.append({"ctx": ctx, "op": "verify_decryption", "args": [a[2], f, a[0][0], a[0][1], pf, a[3]], "_want": True, "_src": c, "tag": "verify-honest"})
    # malicious key holder: wrong factors with FRESH, hash-consistent proofs made by the stock prover
    # (Zkp::decryption_proof takes witness and factor as arguments). Only the two equations can reject these.
    sta = []
    for pstr, n in (("65267", 2 if env.quick else 10), (str(P62), 3 if env.quick else 20), ("2048", 1 if env.quick else 3)):
        for fl in "BM":
            ctx = "%s:%s" % (fl, pstr); P_, q_, g_ = pq(ctx)
            inv2 = pow(2, -1, q_)
            fams = [("folded k=1", 1), ("folded k=-1", q_ - 1), ("folded k=2", 2), ("folded k=1/2", inv2), ("wrong-witness", None), ("wrong-factor-own-proof", None)]
            if pstr == "2048" and env.quick:
                fams = [fams[0], fams[4 + r.randrange(2)]]
            for _ in range(n):
                for name, k in fams:
                    sk = r.randrange(1, q_); y = r.randrange(1, q_)
                    pk = pow(g_, sk, P_); mhr = rnd_member(r, ctx); gr = rnd_member(r, ctx)
                    while gr == 1:
                        gr = rnd_member(r, ctx)
                    lab = hexb(r.randbytes(r.choice([0, 5])))
                    if k is not None:
                        w = (sk + y) % q_
                        f = (pow(gr, w, P_) * pow(g_, (k * y) % q_, P_)) % P_
                    elif name == "wrong-witness":
                        w = (sk + y) % q_; f = pow(gr, w, P_)
                    else:
                        w = sk; f = (pow(gr, sk, P_) * pow(g_, y, P_)) % P_
                    if f == pow(gr, sk, P_):
                        continue
                    sta.append({"ctx": ctx, "op": "dec_proof", "args": [str(w), str(pk), str(f), str(mhr), str(gr), lab, script(r, 1024)],
                                "tag": "malicious-prover", "_name": name})
    oa = env.harness(sta)
    for c, o in zip(sta, oa):
        if not isinstance(o, list):
            continue
        a = c["args"]; ctx = c["ctx"]
        st2.append({"ctx": ctx, "op": "verify_decryption", "args": [a[1], a[2], a[3], a[4], o[0], a[5]],
                    "_want": False if pstr_big(ctx) else None, "_src": c, "tag": "malicious:" + c["_name"]})
    o2 = env.harness(st2)
    for c, o in zip(st2, o2):
        items.append((c, c["ctx"], c["op"], c["args"], o))
        if "_eq" in c and o != c["_eq"]:
            env.violation("%s disagrees with decrypt_and_prove on %s" % (c["op"], c["ctx"]), {"kind": "battery", "case": [c["_src"], c], "out": o})
        if c.get("_want") is not None and o is not c["_want"]:
            env.violation("verify_decryption (%s) returned %s on %s" % (c["tag"], o, c["ctx"]), {"kind": "battery", "case": [c["_src"], c], "out": o})
    # batches through the keymaker hook
    st3 = []
    for fl in "BM":
        for pstr in ("2039", str(P62)):
            ctx = "%s:%s" % (fl, pstr); P_, q_, g_ = pq(ctx)
            sk = r.randrange(1, q_); pk = str(pow(g_, sk, P_))
            # sizes include exact multiples of plausible block sizes (32, 64, 128, 256, 1024): a verifier that works in blocks
            # must still look at the last full block
            for size in (list(range(1, 9)) + [32, 64, 96, 130, 256, 600, 1024, 2048] if not env.quick else (1, 2, 3, 8) + ((32, 64, 70) if pstr == "2039" else (128, 530, 1024))):
                cs = [[str(rnd_member(r, ctx)), str(rnd_member(r, ctx))] for _ in range(size)]
                st3.append({"ctx": ctx, "op": "km_decryption_factor_many", "args": [str(sk), cs, "x:62", script(r, 64 * size + 256)], "_pk": pk, "tag": "batch"})
            # batches in which the SAME ciphertext occurs several times (padding): every occurrence has its own factor/proof pair
            # and each of them must be checked
            a_, b_, c_ = ([str(rnd_member(r, ctx)), str(rnd_member(r, ctx))] for _ in range(3))
            for cs in ([a_, b_, a_, c_, a_, b_], [a_, a_], [b_, c_, c_, c_, c_, c_, c_, b_]):
                st3.append({"ctx": ctx, "op": "km_decryption_factor_many", "args": [str(sk), cs, "x:62", script(r, 64 * len(cs) + 256)], "_pk": pk, "tag": "batch-repeated-ciphertexts"})
    o3 = env.harness(st3)
    st4 = []
    for c, o in zip(st3, o3):
        if not isinstance(o, list):
            env.violation("decryption_factor_many failed: %s" % o, {"kind": "battery", "case": c}); continue
        fs, pfs, draws, used = o
        ctx = c["ctx"]; P_, q_, g_ = pq(ctx); cs = c["args"][1]
        for i, (ct, f, pf, d) in enumerate(zip(cs, fs, pfs, draws)):
            if len(cs) <= 8 or i % 97 == 0 or i == len(cs) - 1:
                items.append((c, ctx, "km_decryption_factor_r", [c["args"][0], ct, c["args"][2], d], [f, pf]))
        st4.append({"ctx": ctx, "op": "verify_decryption_factors", "args": [c["_pk"], cs, fs, pfs, c["args"][2]], "_want": True, "tag": "batch-honest"})
        for pos in (range(len(cs)) if len(cs) <= 8 else sorted(({0, 1, len(cs) // 2, len(cs) - 2, len(cs) - 1} | {b + d for b in (16, 32, 64, 128, 256, 512, 1024) for d in (-1, 0)}
                                                                          | {len(cs) - b + d for b in (16, 32, 64, 128, 256, 512, 1024) for d in (-1, 0, 1)}) & set(range(len(cs))))):
            bad = list(fs); bad[pos] = str((int(bad[pos]) * g_) % P_)
            st4.append({"ctx": ctx, "op": "verify_decryption_factors", "args": [c["_pk"], cs, bad, pfs, c["args"][2]], "_want": False if pstr_big(ctx) else None, "tag": "batch-bad@%d" % pos})
            bp = list(pfs); bp[pos] = [bp[pos][0], bp[pos][1], bp[pos][2], str((int(bp[pos][3]) + 1) % q_)]
            st4.append({"ctx": ctx, "op": "verify_decryption_factors", "args": [c["_pk"], cs, fs, bp, c["args"][2]], "_want": False, "tag": "batch-badproof@%d" % pos})
    o4 = env.harness(st4)
    nbig_tied = 0
    for c, o in zip(st4, o4):
        if len(c["args"][1]) <= 8:
            items.append((c, c["ctx"], c["op"], c["args"], o))
        elif nbig_tied < 2 and c["tag"] != "batch-honest" and len(c["args"][1]) <= 100:
            nbig_tied += 1
            items.append((c, c["ctx"], c["op"], c["args"], o))
        if c.get("_want") is not None and o is not c["_want"]:
            env.violation("verify_decryption_factors (%s) returned %s on %s" % (c["tag"], o, c["ctx"]), {"kind": "battery", "case": c, "out": o})
    # ONE key holder (one Keymaker value) releasing factors for a sequence of ciphertexts in which some repeat: every factor is
    # gr^sk for ITS ciphertext and every proof verifies against its own ciphertext
    for ctx in ("B:%d" % P62, "M:%d" % P62):
        P_, q_, g_ = pq(ctx); sk = r.randrange(2, q_); pk = str(pow(g_, sk, P_))
        a_, b_, c_ = ([str(rnd_member(r, ctx)), str(rnd_member(r, ctx))] for _ in range(3))
        seqc = [a_, b_, a_, c_, [a_[0], b_[1]], b_, a_]
        got = env.harness([{"ctx": ctx, "op": "km_factor_seq", "args": [str(sk), seqc, "x:6b", script(r, 64 * len(seqc) * 4 + 512)], "tag": "keymaker-reuse"}])[0]
        okseq = isinstance(got, list) and len(got) == len(seqc) and all(isinstance(x, list) for x in got)
        if okseq:
            okseq = all(x[0] == str(pow(int(c[1]), sk, P_)) for x, c in zip(got, seqc))
        if not okseq:
            env.violation("one Keymaker value releasing factors for a sequence of ciphertexts on %s: a factor is not gr^sk of its own ciphertext" % ctx,
                          {"kind": "battery", "case": {"ctx": ctx, "op": "km_factor_seq", "args": [str(sk), seqc, "x:6b", "script"]}, "out": str(got)[:300]})
            continue
        vs = env.harness([{"ctx": ctx, "op": "verify_decryption", "args": [pk, x[0], c[0], c[1], x[1], "x:6b"], "tag": "keymaker-reuse-verify"} for x, c in zip(got, seqc)])
        if vs != [True] * len(seqc):
            env.violation("a proof released by a reused Keymaker value does not verify against its own ciphertext on %s: %s" % (ctx, vs),
                          {"kind": "battery", "case": {"ctx": ctx, "op": "km_factor_seq", "args": [str(sk), seqc, "x:6b", "script"]}, "out": vs})
    fails = env.tie(items, "C07", shard=300)
    # ristretto
    L = 2 ** 252 + 27742317777372353535851937790883648493
    els = env.harness([{"ctx": "R", "op": "gpow", "args": [str(r.randrange(L))]} for _ in range(2)])
    o = env.harness([{"ctx": "R", "op": "decrypt_and_prove", "args": ["999", els, "x:", script(r, 256)], "tag": "ristretto"}])[0]
    pk = env.harness([{"ctx": "R", "op": "pk_of_sk", "args": ["999"]}, {"ctx": "R", "op": "decryption_factor", "args": ["999", els]}])
    v = env.harness([{"ctx": "R", "op": "verify_decryption", "args": [pk[0], pk[1], els[0], els[1], o[1], "x:"], "tag": "ristretto"},
                     {"ctx": "R", "op": "verify_decryption", "args": [pk[0], els[0], els[0], els[1], o[1], "x:"], "tag": "ristretto"}])
    if v[0] is not True or v[1] is not False:
        env.violation("ristretto verifiable decryption: honest=%s wrong-factor=%s" % (v[0], v[1]), {"kind": "battery", "case": {"ctx": "R"}})
    # ristretto, malicious key holder: factor gr^(sk+y) * g^y with a fresh proof for witness sk+y
    y = r.randrange(1, 1000)
    parts = env.harness([{"ctx": "R", "op": "epow", "args": [els[1], str(999 + y)], "tag": "ristretto"}, {"ctx": "R", "op": "gpow", "args": [str(y)], "tag": "ristretto"}])
    fbad = env.harness([{"ctx": "R", "op": "emulp", "args": [parts[0], parts[1]], "tag": "ristretto"}])[0]
    pfb = env.harness([{"ctx": "R", "op": "dec_proof", "args": [str(999 + y), pk[0], fbad, els[0], els[1], "x:6d", script(r, 256)], "tag": "ristretto"}])[0]
    if isinstance(pfb, list):
        vb = env.harness([{"ctx": "R", "op": "verify_decryption", "args": [pk[0], fbad, els[0], els[1], pfb[0], "x:6d"], "tag": "ristretto-malicious"}])[0]
        if vb is not False:
            env.violation("ristretto verify_decryption accepts the wrong factor gr^(sk+y) g^y with a fresh proof for witness sk+y: %s" % vb,
                          {"kind": "battery", "case": {"ctx": "R", "y": y, "factor": fbad, "proof": pfb[0]}})
    if fails:
        env.tie_violation("C07", fails)


def pstr_big(ctx):
    s = ctx.split(":")[1]
    return s == "2048" or int(s) > 2 ** 60
