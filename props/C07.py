# C07 — accepted decryption factors yield the true plaintext (verifiable decryption)
from props.util import *

TRUSTED = BASE_TRUSTED + ["soundness is proved as: decision characterisation, special soundness (extraction of one exponent for key and factor), uniqueness of the admissible challenge for a wrong factor; the hash itself is not assumed collision-free",
                          "ristretto under the group-law hypothesis (implementation-only runs)"]
RULE = ("all (sk, ciphertext) over the 121 ciphertexts of p=23 (quick: every sk, ciphertext slice) through decrypt_and_prove and "
        "verify_decryption; wrong factors (f*g, f^2, identity), proofs moved across ciphertext / key / label at 16/62/2048 "
        "bits; batches of size 1..8 with a single bad pair at every position through the crate-private "
        "Keymaker::verify_decryption_factors (hook); threshold::decryption_factor with share and verification key; "
        "every output and decision compared with the Gallina model")


def run(env):
    r = env.rng
    items = []
    st1 = []
    p = 23; q = 11; mem = members(p)
    for fl in "BM":
        ctx = "%s:23" % fl
        for sk in range(q):
            for a in (mem if not env.quick else mem[:: 3]):
                for b in mem:
                    st1.append({"ctx": ctx, "op": "decrypt_and_prove", "args": [str(sk), [str(a), str(b)], "x:", script(r, 256)], "tag": "exh", "_sk": sk})
    env.exhaustive = not env.quick
    for pstr, n in (("65267", 6 if env.quick else 30), (str(P62), 8 if env.quick else 40), ("2048", 1 if env.quick else 4)):
        for fl in "BM":
            ctx = "%s:%s" % (fl, pstr); P_, q_, g_ = pq(ctx)
            for i in range(n):
                sk = [0, 1, q_ - 1][i] if i < 3 and pstr != "2048" else r.randrange(q_)
                st1.append({"ctx": ctx, "op": "decrypt_and_prove", "args": [str(sk), [str(rnd_member(r, ctx)), str(rnd_member(r, ctx))], hexb(r.randbytes(i % 5)), script(r, 1024)], "tag": "big", "_sk": sk})
                st1.append({"ctx": ctx, "op": "th_decryption_factor", "args": [[str(rnd_member(r, ctx)), str(rnd_member(r, ctx))], str(sk), str(pow(g_, sk, P_)), "x:7468", script(r, 1024)], "tag": "threshold", "_sk": sk})
    o1 = env.harness(st1)
    st2 = []
    for c, o in zip(st1, o1):
        ctx = c["ctx"]; P_, q_, g_ = pq(ctx); a = c["args"]
        if not isinstance(o, list):
            env.violation("%s failed on %s: %s" % (c["op"], ctx, o), {"kind": "battery", "case": c, "out": o}); continue
        if c["op"] == "decrypt_and_prove":
            d, pf, draws, used = o
            items.append((c, ctx, "decrypt_and_prove_r", a[:3] + draws[:1], [d, pf]))
            pk = str(pow(g_, c["_sk"], P_)); ct = a[1]
            f = str(pow(int(ct[1]), c["_sk"], P_))
            st2.append({"ctx": ctx, "op": "verify_decryption", "args": [pk, f, ct[0], ct[1], pf, a[2]], "_want": True, "_src": c, "tag": "verify-honest"})
            st2.append({"ctx": ctx, "op": "decrypt", "args": [str(c["_sk"]), ct], "_eq": d, "_src": c, "tag": "decrypt"})
            st2.append({"ctx": ctx, "op": "decryption_factor", "args": [str(c["_sk"]), ct], "_eq": f, "_src": c, "tag": "factor"})
            if c["tag"] == "big":
                big = pstr_big(ctx)
                for wf, tg in ((str((int(f) * g_) % P_), "wrong-factor*g"), (str(pow(int(f), 2, P_)), "wrong-factor^2"), ("1", "wrong-factor=1")):
                    if wf != f:
                        st2.append({"ctx": ctx, "op": "verify_decryption", "args": [pk, wf, ct[0], ct[1], pf, a[2]], "_want": False if big else None, "_src": c, "tag": tg})
                st2.append({"ctx": ctx, "op": "verify_decryption", "args": [pk, f, str((int(ct[0]) * g_) % P_), ct[1], pf, a[2]], "_want": False if big else None, "_src": c, "tag": "other-ciphertext-mhr"})
                st2.append({"ctx": ctx, "op": "verify_decryption", "args": [pk, f, ct[0], str((int(ct[1]) * g_) % P_), pf, a[2]], "_want": False if big else None, "_src": c, "tag": "other-ciphertext-gr"})
                st2.append({"ctx": ctx, "op": "verify_decryption", "args": [str((int(pk) * g_) % P_), f, ct[0], ct[1], pf, a[2]], "_want": False if big else None, "_src": c, "tag": "other-key"})
                st2.append({"ctx": ctx, "op": "verify_decryption", "args": [pk, f, ct[0], ct[1], pf, a[2] + "aa"], "_want": False if big else None, "_src": c, "tag": "other-label"})
        else:
            f, pf, draws, used = o
            items.append((c, ctx, "th_decryption_factor_r", a[:4] + draws[:1], [f, pf]))
            st2.append({"ctx": ctx, "op": "verify_decryption", "args": [a[2], f, a[0][0], a[0][1], pf, a[3]], "_want": True, "_src": c, "tag": "verify-honest"})
    o2 = env.harness(st2)
    for c, o in zip(st2, o2):
        items.append((c, c["ctx"], c["op"], c["args"], o))
        if "_eq" in c and o != c["_eq"]:
            env.violation("%s disagrees with decrypt_and_prove on %s" % (c["op"], c["ctx"]), {"kind": "battery", "case": [c["_src"], c], "out": o})
        if c.get("_want") is not None and o is not c["_want"]:
            env.violation("verify_decryption (%s) returned %s on %s" % (c["tag"], o, c["ctx"]), {"kind": "battery", "case": [c["_src"], c], "out": o})
    # batches through the keymaker hook
    st3 = []
    for fl in "BM":
        for pstr in ("2039", str(P62)):
            ctx = "%s:%s" % (fl, pstr); P_, q_, g_ = pq(ctx)
            sk = r.randrange(1, q_); pk = str(pow(g_, sk, P_))
            for size in (range(1, 9) if not env.quick else (1, 2, 3, 8)):
                cs = [[str(rnd_member(r, ctx)), str(rnd_member(r, ctx))] for _ in range(size)]
                st3.append({"ctx": ctx, "op": "km_decryption_factor_many", "args": [str(sk), cs, "x:62", script(r, 64 * size + 256)], "_pk": pk, "tag": "batch"})
    o3 = env.harness(st3)
    st4 = []
    for c, o in zip(st3, o3):
        if not isinstance(o, list):
            env.violation("decryption_factor_many failed: %s" % o, {"kind": "battery", "case": c}); continue
        fs, pfs, draws, used = o
        ctx = c["ctx"]; P_, q_, g_ = pq(ctx); cs = c["args"][1]
        for i, (ct, f, pf, d) in enumerate(zip(cs, fs, pfs, draws)):
            items.append((c, ctx, "km_decryption_factor_r", [c["args"][0], ct, c["args"][2], d], [f, pf]))
        st4.append({"ctx": ctx, "op": "verify_decryption_factors", "args": [c["_pk"], cs, fs, pfs, c["args"][2]], "_want": True, "tag": "batch-honest"})
        for pos in range(len(cs)):
            bad = list(fs); bad[pos] = str((int(bad[pos]) * g_) % P_)
            st4.append({"ctx": ctx, "op": "verify_decryption_factors", "args": [c["_pk"], cs, bad, pfs, c["args"][2]], "_want": False if pstr_big(ctx) else None, "tag": "batch-bad@%d" % pos})
            bp = list(pfs); bp[pos] = [bp[pos][0], bp[pos][1], bp[pos][2], str((int(bp[pos][3]) + 1) % q_)]
            st4.append({"ctx": ctx, "op": "verify_decryption_factors", "args": [c["_pk"], cs, fs, bp, c["args"][2]], "_want": False, "tag": "batch-badproof@%d" % pos})
    o4 = env.harness(st4)
    for c, o in zip(st4, o4):
        items.append((c, c["ctx"], c["op"], c["args"], o))
        if c.get("_want") is not None and o is not c["_want"]:
            env.violation("verify_decryption_factors (%s) returned %s on %s" % (c["tag"], o, c["ctx"]), {"kind": "battery", "case": c, "out": o})
    fails = env.tie(items, "C07", shard=300)
    # ristretto
    L = 2 ** 252 + 27742317777372353535851937790883648493
    els = env.harness([{"ctx": "R", "op": "gpow", "args": [str(r.randrange(L))]} for _ in range(2)])
    o = env.harness([{"ctx": "R", "op": "decrypt_and_prove", "args": ["999", els, "x:", script(r, 256)], "tag": "ristretto"}])[0]
    pk = env.harness([{"ctx": "R", "op": "pk_of_sk", "args": ["999"]}, {"ctx": "R", "op": "decryption_factor", "args": ["999", els]}])
    v = env.harness([{"ctx": "R", "op": "verify_decryption", "args": [pk[0], pk[1], els[0], els[1], o[1], "x:"], "tag": "ristretto"},
                     {"ctx": "R", "op": "verify_decryption", "args": [pk[0], els[0], els[0], els[1], o[1], "x:"], "tag": "ristretto"}])
    if v[0] is not True or v[1] is not False:
        env.violation("ristretto verifiable decryption: honest=%s wrong-factor=%s" % (v[0], v[1]), {"kind": "battery", "case": {"ctx": "R"}})
    if fails:
        env.tie_violation("C07", fails)


def pstr_big(ctx):
    s = ctx.split(":")[1]
    return s == "2048" or int(s) > 2 ** 60
