# C10 — any t or more trustees reconstruct; Lagrange coefficients interpolate at zero
import itertools
from props.util import *

TRUSTED = BASE_TRUSTED + ["ristretto under the group-law hypothesis (implementation-only runs)"]
RULE = ("all subsets S of {1..n} (n<=6 quick / 8 thorough) with |S| >= t, in EVERY listing order for |S|<=3 (quick) / 4 and "
        "rotations+reversal above, t from 1 to |S|, on p=2039 and the 62-bit set (n<=12 sampled at 62 bits, a handful at 2048), plus high "
        "trustee numbers with high thresholds (n = 12, 17, 20 with t = 10..20; 90 of 130 trustees and trustees 70..139 with t = 66; 40 thorough) where trustee^(t-1) exceeds 2^32 and 2^64: "
        "lagrange, eval_poly, threshold::decryption_factor compared with the Gallina model; battery on implementation outputs: "
        "sum_i lambda_i P(i) = P(0) mod q, the combined factors decrypt the ciphertext, |S| = t-1 does not (62-bit and up)"
        " Added in session 3: dealer polynomials with zero constant / interior / leading coefficients;")


def run(env):
    r = env.rng
    items = []
    fails_b = 0
    nmax = 6 if env.quick else 8
    plans = []
    for fl in "BM":
        for pstr in ("2039", str(P62)):
            ctx = "%s:%s" % (fl, pstr)
            if pstr == "2039" or not env.quick:
                for n in range(1, nmax + 1):
                    for size in range(1, n + 1):
                        subs = list(itertools.combinations(range(1, n + 1), size))
                        if env.quick and len(subs) > 6:
                            subs = r.sample(subs, 6)
                        for S in subs:
                            if len(S) <= (3 if env.quick else 4):
                                orders = list(itertools.permutations(S))
                            else:
                                orders = [S, tuple(reversed(S)), S[1:] + S[:1]]
                            if env.quick and len(orders) > 3:
                                orders = [orders[0], orders[-1], r.choice(orders)]
                            for od in orders:
                                for t in sorted({1, len(S), max(1, len(S) - 1)}):
                                    plans.append((ctx, list(od), t))
            else:
                for _ in range(10):
                    n = r.randrange(2, 13); size = r.randrange(1, n + 1)
                    S = r.sample(range(1, n + 1), size)
                    plans.append((ctx, S, r.randrange(1, size + 1)))
        # high trustee numbers with high thresholds: (trustee)^(t-1) crosses 2^32 from (12, 10) / (11, 11) on and 2^64 from
        # (17, 17) / (20, 16) on — the regime where a machine-integer power in eval_poly / lagrange would wrap
        for pstr in ("2039", str(P62)):
            ctx = "%s:%s" % (fl, pstr)
            plans.append((ctx, list(range(3, 13)), 10))
            plans.append((ctx, list(range(12, 0, -1)), 12))
            plans.append((ctx, list(range(2, 13)), 11))
            plans.append((ctx, list(range(1, 18)), 17))
            plans.append((ctx, [20, 19, 18] + list(range(1, 18)), 20))
            if pstr == "2039" or not env.quick:
                # many trustees (trustee numbers above 64 / 100, thresholds above 64)
                plans.append((ctx, r.sample(range(1, 131), 90), 90))
                plans.append((ctx, list(range(70, 140)), 66))
            if not env.quick:
                plans.append((ctx, r.sample(range(1, 41), 25), 25))
                plans.append((ctx, list(range(40, 0, -1)), 40))
        ctx = "%s:2048" % fl
        plans.append((ctx, [3, 1], 2))
        if not env.quick:
            plans.append((ctx, [2, 5, 4], 3))
    # de-duplicate identical plans
    seen = set(); pl2 = []
    for pz in plans:
        k = (pz[0], tuple(pz[1]), pz[2])
        if k not in seen:
            seen.add(k); pl2.append(pz)
    plans = pl2
    st1 = []
    for ctx, S, t in plans:
        P_, q_, g_ = pq(ctx)
        coeffs = [str(r.randrange(q_)) for _ in range(t)]
        # dealer polynomials with vanishing / extreme coefficients (zero secret, zero interior or leading term, q-1, 1):
        # every fourth plan gets one of these patterns instead of random coefficients
        nplan = len(st1)
        pat = (nplan // 2) % 8
        if pat in (1, 3, 5, 7):
            cz = [r.randrange(1, q_) for _ in range(t)]
            if pat == 1: cz[0] = 0
            if pat == 3 and t >= 3: cz[t // 2] = 0
            if pat == 3 and t < 3: cz[0] = 0; cz[-1] = q_ - 1
            if pat == 5: cz[-1] = 0
            if pat == 7: cz = [0] * t if t > 1 else [0]; cz[-1] = 1 if t > 1 else 0
            coeffs = [str(c) for c in cz]
        for i in S:
            st1.append({"ctx": ctx, "op": "lagrange", "args": [str(i), [str(x) for x in S]], "tag": "lagrange|S|=%d" % len(S)})
            st1.append({"ctx": ctx, "op": "eval_poly", "args": [str(i), str(t), coeffs], "tag": "eval_poly"})
    o1 = env.harness(st1)
    k = 0
    st2 = []
    for ctx, S, t in plans:
        P_, q_, g_ = pq(ctx)
        lams, shares = [], []
        coeffs = None
        for i in S:
            cl, ol = st1[k], o1[k]; ce, oe = st1[k + 1], o1[k + 1]; k += 2
            items.append((cl, ctx, "lagrange", cl["args"], ol)); items.append((ce, ctx, "eval_poly", ce["args"], oe))
            lams.append(ol); shares.append(oe); coeffs = ce["args"][2]
        if "panic" in lams or "panic" in shares:
            env.violation("lagrange/eval_poly panics for S=%s t=%d on %s" % (S, t, ctx), {"kind": "battery", "case": {"ctx": ctx, "op": "lagrange", "args": [str(S[0]), [str(x) for x in S]]}})
            continue
        total = sum(int(l) * int(s) for l, s in zip(lams, shares)) % q_
        if total != int(coeffs[0]) % q_:
            env.violation("sum lambda_i P(i) != P(0) for S=%s t=%d on %s" % (S, t, ctx),
                          {"kind": "battery", "case": [{"ctx": ctx, "op": "lagrange", "args": [str(i), [str(x) for x in S]]} for i in S], "lambdas": lams, "shares": shares, "coeffs": coeffs})
        # group form on a ciphertext, via the library's own element operations
        if ctx.endswith("2048") or r.random() < (0.15 if env.quick else 0.4):
            m = rnd_member(r, ctx); rr = r.randrange(q_)
            pk = pow(g_, int(coeffs[0]), P_)
            gr = pow(g_, rr, P_); mhr = (m * pow(pk, rr, P_)) % P_
            st2.append({"ctx": ctx, "_S": S, "_t": t, "_m": m, "_ct": [str(mhr), str(gr)], "_lams": lams, "_shares": shares})
    # threshold decryption through the API: factor_i = decryption_factor(c, share_i, vk_i); combine with epow / emulp
    st3 = []
    for d in st2:
        ctx = d["ctx"]; P_, q_, g_ = pq(ctx)
        for i, sh in zip(d["_S"], d["_shares"]):
            st3.append({"ctx": ctx, "op": "th_decryption_factor", "args": [d["_ct"], sh, str(pow(g_, int(sh), P_)), "x:", script(r, 1024)], "tag": "th_factor"})
    o3 = env.harness(st3)
    k = 0
    st4 = []
    for d in st2:
        ctx = d["ctx"]; P_, q_, g_ = pq(ctx)
        fs = []
        for i in d["_S"]:
            c, o = st3[k], o3[k]; k += 1
            items.append((c, ctx, "th_decryption_factor_r", c["args"][:4] + o[2][:1], [o[0], o[1]]))
            fs.append(o[0])
            st4.append({"ctx": ctx, "op": "verify_decryption", "args": [c["args"][2], o[0], d["_ct"][0], d["_ct"][1], o[1], "x:"], "_want": True, "tag": "verify"})
        d["_fs"] = fs
        for f, l in zip(fs, d["_lams"]):
            st4.append({"ctx": ctx, "op": "epow", "args": [f, l], "_d": id(d), "tag": "combine"})
    o4 = env.harness(st4)
    acc = {}
    for c, o in zip(st4, o4):
        items.append((c, c["ctx"], c["op"], c["args"], o))
        if c.get("_want") is True and o is not True:
            env.violation("threshold decryption factor proof rejected on %s" % c["ctx"], {"kind": "battery", "case": c})
        if "_d" in c:
            P_, q_, g_ = pq(c["ctx"])
            acc[c["_d"]] = (acc.get(c["_d"], 1) * int(o)) % P_
    for d in st2:
        ctx = d["ctx"]; P_, q_, g_ = pq(ctx)
        comb = acc[id(d)]
        o = env.harness([{"ctx": ctx, "op": "edivp", "args": [d["_ct"][0], str(comb)], "tag": "final"}])[0]
        got = int(o) % P_
        enough = len(d["_S"]) >= d["_t"]
        if enough and got != d["_m"]:
            env.violation("threshold decryption with |S|=%d >= t=%d does not return the plaintext on %s, S=%s" % (len(d["_S"]), d["_t"], ctx, d["_S"]),
                          {"kind": "battery", "case": {"ctx": ctx, "S": d["_S"], "t": d["_t"], "ct": d["_ct"], "lambdas": d["_lams"], "shares": d["_shares"]}})
    # fewer than t trustees (62-bit: accidental success has probability ~2^-61)
    for fl in "BM":
        ctx = "%s:%s" % (fl, P62); P_, q_, g_ = pq(ctx)
        t = 3; coeffs = [str(r.randrange(q_)) for _ in range(t)]
        S = [1, 2]
        o = env.harness([{"ctx": ctx, "op": "lagrange", "args": [str(i), [str(x) for x in S]]} for i in S] +
                        [{"ctx": ctx, "op": "eval_poly", "args": [str(i), str(t), coeffs]} for i in S])
        total = sum(int(l) * int(s) for l, s in zip(o[:2], o[2:])) % q_
        if total == int(coeffs[0]) % q_:
            env.violation("t-1 trustees reconstruct the secret on %s" % ctx, {"kind": "battery", "case": {"ctx": ctx, "coeffs": coeffs}})
    fails = env.tie(items, "C10", shard=300)
    # ristretto
    L = 2 ** 252 + 27742317777372353535851937790883648493
    for S, t in (([1, 2, 3], 3), ([4, 2], 2), ([5, 1, 3, 2], 3), (list(range(12, 0, -1)), 12), ([20, 19, 18] + list(range(1, 18)), 20)):
        coeffs = [str(r.randrange(L)) for _ in range(t)]
        o = env.harness([{"ctx": "R", "op": "lagrange", "args": [str(i), [str(x) for x in S]], "tag": "ristretto"} for i in S] +
                        [{"ctx": "R", "op": "eval_poly", "args": [str(i), str(t), coeffs], "tag": "ristretto"} for i in S])
        n = len(S)
        if "panic" in o:
            env.violation("ristretto lagrange/eval_poly panics S=%s" % S, {"kind": "battery", "case": {"S": S}}); continue
        if sum(int(l) * int(s) for l, s in zip(o[:n], o[n:])) % L != int(coeffs[0]) % L:
            env.violation("ristretto: sum lambda_i P(i) != P(0) for S=%s" % S, {"kind": "battery", "case": {"S": S, "coeffs": coeffs}})
    if fails:
        env.tie_violation("C10", fails)
