# C05 — honest Schnorr / Chaum-Pedersen / plaintext-knowledge / decryption proofs verify
from props.util import *

TRUSTED = BASE_TRUSTED + ["ristretto255: completeness of Schnorr / Chaum-Pedersen proofs is proved about the executable curve model with no group-law hypothesis (Proofs/RistrettoGroup.v); for bases other than the standard generator the order condition [l]g = 0 is a premise; the ristretto runs are tied to the Gallina ristretto255 model (Model/Ristretto.v, RBackend.v) by correspondence"]
RULE = ("exhaustive (secret, nonce) over Z_q x Z_q of p=23 for every base in the group (default and explicit, incl. the "
        "identity and g) on num-bigint (nonce chosen through the scripted RNG) and random nonces on malachite; boundary "
        "secrets 0,1,q-1 and random at 16/62/2048 bits; labels empty/short/long; every prover output and every verifier "
        "decision compared with the Gallina model computing the real SHA-512 transcript; serialization in the loop; "
        "ristretto: Schnorr/CP/popk/decryption proofs with default, explicit-standard and derived bases, prover outputs and decisions compared with the Gallina ristretto255 model"
        " Added in session 3: labels at digest-size / power-of-two length boundaries;")


from props.util import boundary_labels


def run(env):
    r = env.rng
    items = []
    stage1 = []
    def add_schnorr(ctx, x, base, label, nonce=None):
        p, q, g = pq(ctx)
        b = g if base is None else base
        pub = pow(b, x, p)
        sc = script_for_exps(ctx, [nonce], r) if nonce is not None else script(r, 2048)
        stage1.append({"ctx": ctx, "op": "schnorr_prove", "args": [str(x), str(pub), None if base is None else str(base), label, sc],
                       "tag": "schnorr", "_pub": pub, "_base": base})
    def add_cp(ctx, x, g1, g2, label, nonce=None):
        p, q, g = pq(ctx)
        b = g if g1 is None else g1
        sc = script_for_exps(ctx, [nonce], r) if nonce is not None else script(r, 2048)
        stage1.append({"ctx": ctx, "op": "cp_prove", "args": [str(x), str(pow(b, x, p)), str(pow(g2, x, p)), None if g1 is None else str(g1), str(g2), label, sc],
                       "tag": "cp"})
    def add_popk(ctx, x, m, label):
        p, q, g = pq(ctx)
        stage1.append({"ctx": ctx, "op": "popk", "args": [str(x), str(m), str(pow(g, x, p)), label, script(r, 2048)], "tag": "popk"})
    def add_dec(ctx, sk, c, label):
        p, q, g = pq(ctx)
        stage1.append({"ctx": ctx, "op": "dec_proof", "args": [str(sk), str(pow(g, sk, p)), str(pow(c[1], sk, p)), str(c[0]), str(c[1]), label, script(r, 2048)], "tag": "dec_proof"})
    # exhaustive on p = 23
    p = 23; q = 11; mem = members(p)
    for fl in "BM":
        ctx = "%s:%d" % (fl, p)
        for x in range(q):
            for n in range(q):
                add_schnorr(ctx, x, None, "x:", n)
                for base in (mem if (not env.quick or fl == "B") else [1, 4, 9]):
                    add_schnorr(ctx, x, base, "x:", n)
                add_cp(ctx, x, None, mem[(x + n) % len(mem)], "x:", n)
                add_cp(ctx, x, mem[n], mem[(x * 3 + 1) % len(mem)], "x:6c", n)
    env.exhaustive = True
    labels = ["x:", "x:00", hexb(r.randbytes(300))] + ([hexb(r.randbytes(4096))] if not env.quick else [])
    # labels whose LENGTH sits on a digest-size / power-of-two boundary: all four proof kinds on a cheap set
    for k, lab in enumerate(boundary_labels(env.quick)):
        ctx = ["B:2039", "M:2039"][k % 2]; p, q, g = pq(ctx); x = r.randrange(q)
        add_schnorr(ctx, x, None if k % 3 else rnd_member(r, ctx), lab)
        add_cp(ctx, x, None, rnd_member(r, ctx), lab)
        add_popk(ctx, x, rnd_member(r, ctx), lab)
        add_dec(ctx, x, (rnd_member(r, ctx), rnd_member(r, ctx)), lab)
    for pstr, n in [("65267", 6 if env.quick else 40), (str(P62), 8 if env.quick else 60), ("2048", 1 if env.quick else 6)]:
        for fl in "BM":
            ctx = "%s:%s" % (fl, pstr)
            p, q, g = pq(ctx)
            xs = ([0, 1, q - 1] if pstr != "2048" else [q - 1]) + [r.randrange(q) for _ in range(n)]
            for i, x in enumerate(xs):
                lab = labels[i % len(labels)]
                base = None if i % 2 == 0 else rnd_member(r, ctx)
                add_schnorr(ctx, x, base, lab)
                if pstr != "2048" or not env.quick:
                    add_cp(ctx, x, base, rnd_member(r, ctx), lab)
                    add_popk(ctx, x, rnd_member(r, ctx), lab)
                add_dec(ctx, x, (rnd_member(r, ctx), rnd_member(r, ctx)), lab)
            if pstr != "2048":
                add_schnorr(ctx, 5, 1, "x:")           # base = identity
                add_schnorr(ctx, q - 1, g, "x:")       # explicit standard generator
                add_cp(ctx, q - 1, g, rnd_member(r, ctx), "x:01")   # explicit standard generator as first CP base
    o1 = env.harness(stage1)
    stage2 = []
    for c, o in zip(stage1, o1):
        a = c["args"]; ctx = c["ctx"]
        if not isinstance(o, list):
            env.violation("%s failed for a true statement on %s: %s" % (c["op"], ctx, o), {"kind": "battery", "case": c, "out": o}); continue
        proof, draws = o[0], o[1]
        if c["op"] == "schnorr_prove":
            items.append((c, ctx, "schnorr_prove_r", a[:4] + draws[:1], proof))
            stage2.append({"ctx": ctx, "op": "schnorr_verify", "args": [a[1], a[2], proof, a[3]], "_src": c, "tag": "verify"})
            # default generator <-> explicit standard generator
            p, q, g = pq(ctx)
            if a[2] is None:
                stage2.append({"ctx": ctx, "op": "schnorr_verify", "args": [a[1], str(g), proof, a[3]], "_src": c, "tag": "verify-interchange"})
            elif int(a[2]) == g:
                stage2.append({"ctx": ctx, "op": "schnorr_verify", "args": [a[1], None, proof, a[3]], "_src": c, "tag": "verify-interchange"})
            stage2.append({"ctx": ctx, "op": "ser_schnorr", "args": [proof], "_src": c, "_proof": proof, "tag": "wire"})
        elif c["op"] == "cp_prove":
            items.append((c, ctx, "cp_prove_r", a[:6] + draws[:1], proof))
            stage2.append({"ctx": ctx, "op": "cp_verify", "args": [a[1], a[2], a[3], a[4], proof, a[5]], "_src": c, "tag": "verify"})
            # default first base <-> explicit standard generator (both directions)
            p, q, g = pq(ctx)
            if a[3] is None:
                stage2.append({"ctx": ctx, "op": "cp_verify", "args": [a[1], a[2], str(g), a[4], proof, a[5]], "_src": c, "tag": "verify-interchange"})
            elif int(a[3]) == g:
                stage2.append({"ctx": ctx, "op": "cp_verify", "args": [a[1], a[2], None, a[4], proof, a[5]], "_src": c, "tag": "verify-interchange"})
            stage2.append({"ctx": ctx, "op": "ser_cp", "args": [proof], "_src": c, "_proof": proof, "tag": "wire"})
        elif c["op"] == "popk":
            items.append((c, ctx, "popk_r", a[:4] + draws[:1], proof))
            stage2.append({"ctx": ctx, "op": "popk_verify", "args": [a[1], a[2], proof, a[3]], "_src": c, "tag": "verify"})
        elif c["op"] == "dec_proof":
            items.append((c, ctx, "dec_proof_r", a[:6] + draws[:1], proof))
            stage2.append({"ctx": ctx, "op": "verify_decryption", "args": [a[1], a[2], a[3], a[4], proof, a[5]], "_src": c, "tag": "verify"})
    o2 = env.harness(stage2)
    stage3 = []
    for c, o in zip(stage2, o2):
        if c["tag"] == "wire":
            items.append((c, c["ctx"], c["op"], c["args"], o))
            stage3.append({"ctx": c["ctx"], "op": "de_" + c["op"][4:], "args": [o], "_proof": c["_proof"], "_src": c["_src"], "tag": "wire"})
            continue
        items.append((c, c["ctx"], c["op"], c["args"], o))
        if o is not True:
            env.violation("honest %s proof rejected on %s (%s): %s" % (c["_src"]["op"], c["ctx"], c["tag"], o),
                          {"kind": "battery", "case": [c["_src"], c], "out": o})
    o3 = env.harness(stage3)
    for c, o in zip(stage3, o3):
        items.append((c, c["ctx"], c["op"], c["args"], o))
        if o != c["_proof"]:
            env.violation("proof does not survive serialization on %s" % c["ctx"], {"kind": "battery", "case": [c["_src"], c], "out": o})
    fails = env.tie(items, "C05", shard=300)
    # ristretto: prove -> verify on the implementation
    L = 2 ** 252 + 27742317777372353535851937790883648493
    GEN = "x:e2f2ae0a6abc4e71a884a961c500515f58e30b6aa582dd8db6a65945e08d2d76"
    xs = [0, 1, L - 1] + [r.randrange(L) for _ in range(2 if env.quick else 20)]
    hs = env.harness([{"ctx": "R", "op": "generators", "args": ["2", "x:6335"], "tag": "ristretto"}])[0]
    rs1 = []
    for x in xs:
        for b in (GEN, hs[0], hs[1]):
            rs1.append({"ctx": "R", "op": "epow", "args": [b, str(x)], "_x": x, "_b": b, "tag": "ristretto"})
    ro1 = env.harness(rs1)
    pub = {(c["_x"], c["_b"]): o for c, o in zip(rs1, ro1)}
    rs2 = []
    for i, x in enumerate(xs):
        lab = ["x:", "x:aa", hexb(r.randbytes(70))][i % 3]
        rs2.append({"ctx": "R", "op": "schnorr_prove", "args": [str(x), pub[(x, GEN)], None, lab, script(r, 256)], "tag": "ristretto"})
        rs2.append({"ctx": "R", "op": "schnorr_prove", "args": [str(x), pub[(x, GEN)], GEN, lab, script(r, 256)], "tag": "ristretto"})
        rs2.append({"ctx": "R", "op": "schnorr_prove", "args": [str(x), pub[(x, hs[0])], hs[0], lab, script(r, 256)], "tag": "ristretto"})
        rs2.append({"ctx": "R", "op": "cp_prove", "args": [str(x), pub[(x, GEN)], pub[(x, hs[1])], None, hs[1], lab, script(r, 256)], "tag": "ristretto"})
        rs2.append({"ctx": "R", "op": "cp_prove", "args": [str(x), pub[(x, GEN)], pub[(x, hs[1])], GEN, hs[1], lab, script(r, 256)], "tag": "ristretto"})
        rs2.append({"ctx": "R", "op": "cp_prove", "args": [str(x), pub[(x, hs[0])], pub[(x, hs[1])], hs[0], hs[1], lab, script(r, 256)], "tag": "ristretto"})
        rs2.append({"ctx": "R", "op": "popk", "args": [str(x), hs[1], pub[(x, GEN)], lab, script(r, 256)], "tag": "ristretto"})
        rs2.append({"ctx": "R", "op": "dec_proof", "args": [str(x), pub[(x, GEN)], pub[(x, hs[1])], hs[0], hs[1], lab, script(r, 256)], "tag": "ristretto"})
    ro2 = env.harness(rs2)
    rs3 = []
    for c, o in zip(rs2, ro2):
        a = c["args"]
        if not isinstance(o, list):
            env.violation("ristretto %s failed for a true statement: %s" % (c["op"], o), {"kind": "battery", "case": c, "out": o}); continue
        pf = o[0]
        if c["op"] == "schnorr_prove":
            alts = [a[2]] + ([GEN] if a[2] is None else ([None] if a[2] == GEN else []))
            for b in alts:
                rs3.append({"ctx": "R", "op": "schnorr_verify", "args": [a[1], b, pf, a[3]], "_src": c, "tag": "ristretto"})
        elif c["op"] == "cp_prove":
            alts = [a[3]] + ([GEN] if a[3] is None else ([None] if a[3] == GEN else []))
            for b in alts:
                rs3.append({"ctx": "R", "op": "cp_verify", "args": [a[1], a[2], b, a[4], pf, a[5]], "_src": c, "tag": "ristretto"})
        elif c["op"] == "popk":
            rs3.append({"ctx": "R", "op": "popk_verify", "args": [a[1], a[2], pf, a[3]], "_src": c, "tag": "ristretto"})
        else:
            rs3.append({"ctx": "R", "op": "verify_decryption", "args": [a[1], a[2], a[3], a[4], pf, a[5]], "_src": c, "tag": "ristretto"})
    for c, o in zip(rs3, env.harness(rs3)):
        if o is not True:
            env.violation("honest ristretto %s proof rejected by %s: %s" % (c["_src"]["op"], c["op"], o), {"kind": "battery", "case": [c["_src"], c], "out": o})
    if fails:
        env.tie_violation("C05", fails)
