# C12 — serialization round-trips exactly, is injective, rejects trailing/missing bytes
from props.util import *
from props import wire, shuf

TRUSTED = BASE_TRUSTED + ["ristretto wire format (32/30 fixed bytes) is exercised on the implementation only; dalek's compress/decompress are not modelled"]
RULE = ("every wire type (element, exponent, plaintext, Ciphertext, PublicKey, PrivateKey, Schnorr, ChaumPedersen, ShuffleProof, the "
        "five StrandVector wrappers) x both multiplicative backends x parameter sets 23, 16-bit, 62-bit, 2048-bit x boundary values "
        "(identity, generator, exponent 0 / q-1, plaintext 0 / 255 / 256 / 65535 / 65536, empty vectors, vectors of length 1..3 and 65 / 129 / 300) and "
        "random values: bytes produced by the implementation == bytes produced by the Gallina writers; decode(encode v) == v; "
        "encodings with one byte appended, one byte removed, and sampled single-bit flips decode to what the model says (value or "
        "error); distinct values give distinct encodings"
        " Added in session 3: appended line terminators, blanks, 0xff, a zero u32, the encoding doubled;")


def values(ctx, r, quick):
    P_, q_, g_ = pq(ctx)
    n = 2 if (quick or ctx.endswith("2048")) else 6
    E = [1, g_] + [rnd_member(r, ctx) for _ in range(n)]
    X = [0, 1, q_ - 1] + [r.randrange(q_) for _ in range(n)]
    Pl = [0, 1, 255, 256, 65535, 65536, 2 ** 64] + [r.randrange(2 ** 100) for _ in range(n)]
    s = lambda v: str(v)
    ct = lambda: [s(r.choice(E)), s(r.choice(E))]
    out = []
    for e in E: out.append(("e", s(e)))
    for x in X: out.append(("x", s(x)))
    for m in Pl: out.append(("p", s(m)))
    for _ in range(n): out.append(("c", ct()))
    out.append(("c", ["1", "1"]))
    for e in E[:3]: out.append(("pk", s(e)))
    for x in X[:4]: out.append(("sk", s(x)))
    for _ in range(n):
        out.append(("schnorr", [s(r.choice(E)), s(r.choice(X)), s(r.choice(X))]))
        out.append(("cp", [s(r.choice(E)), s(r.choice(E)), s(r.choice(X)), s(r.choice(X))]))
    # long vectors once per context class (lengths that cross 64 / 256 / 1024 and a non-multiple of everything): the
    # model evaluates them too (writers/readers are linear)
    longs = () if ctx.endswith("2048") else ((65, 300) if ctx.endswith(":23") else (129,))
    for L in (0, 1, 2, 3) + longs:
        out.append(("vec_e", [s(r.choice(E)) for _ in range(L)]))
        out.append(("vec_x", [s(r.choice(X)) for _ in range(L)]))
        out.append(("vec_p", [s(r.choice(Pl)) for _ in range(L)]))
        out.append(("vec_c", [ct() for _ in range(L)]))
        out.append(("vec_cp", [[s(r.choice(E)), s(r.choice(E)), s(r.choice(X)), s(r.choice(X))] for _ in range(L)]))
    return out


SUFFIXES = [b"\x00", b"\n", b"\r\n", b" ", b"\xff", b"\t", b"\x00\x00\x00\x00", b"\n\n", b"\x00\n", b"="]


def run(env):
    r = env.rng
    items = []
    st1 = []
    sets = ["23", "65267", str(P62), "2048"]
    for pstr in sets:
        for fl in "BM":
            ctx = "%s:%s" % (fl, pstr)
            for kind, v in values(ctx, r, env.quick):
                st1.append({"ctx": ctx, "op": "ser_" + kind, "args": [v], "_kind": kind, "_v": v, "tag": "ser_" + kind})
    o1 = env.harness(st1)
    st2 = []
    seen = {}
    nseen = {}
    for c, o in zip(st1, o1):
        ctx = c["ctx"]; kind = c["_kind"]
        if kind != "vec_cp" or True:
            items.append((c, ctx, c["op"], c["args"], o)) if kind not in ("vec_cp",) else None
        if not (isinstance(o, str) and o.startswith("x:")):
            env.violation("serialization of a valid %s failed on %s: %s" % (kind, ctx, o), {"kind": "battery", "case": c, "out": o}); continue
        k = (ctx, kind, o)
        vj = str(c["_v"])
        if k in seen and seen[k] != vj:
            env.violation("two distinct %s values share one encoding on %s" % (kind, ctx), {"kind": "battery", "case": c})
        seen[k] = vj
        b = wire.unhx(o)
        want = c["_v"]
        if kind == "sk":
            want = None
        st2.append({"ctx": ctx, "op": "de_" + kind, "args": [o], "_want": want, "_src": c, "tag": "roundtrip"})
        # appended bytes: a zero, text-file line terminators, blanks, 0xff, a whole extra length prefix, the encoding twice
        nseen[(ctx, kind)] = nseen.get((ctx, kind), 0) + 1
        sfx = SUFFIXES + [b]
        for suf in (sfx if nseen[(ctx, kind)] <= 2 and not ctx.endswith("2048") else [b"\x00", sfx[nseen[(ctx, kind)] % len(sfx)]]):
            if suf:
                st2.append({"ctx": ctx, "op": "de_" + kind, "args": [hexb(b + suf)], "_err": True, "_src": c, "tag": "appended"})
        if len(b) > 0:
            st2.append({"ctx": ctx, "op": "de_" + kind, "args": [hexb(b[:-1])], "_err": True, "_src": c, "tag": "truncated"})
        if len(b) > 4 and not (ctx.endswith("2048") and env.quick):
            for _ in range(1 if env.quick else 4):
                i = r.randrange(len(b)); bb = bytearray(b); bb[i] ^= 1 << r.randrange(8)
                st2.append({"ctx": ctx, "op": "de_" + kind, "args": [hexb(bytes(bb))], "_src": c, "tag": "bitflip"})
    # structural surgery on Vec<Vec<u8>> encodings (u32 count, then per item u32 length + bytes): an item carrying surplus
    # bytes INSIDE its own length prefix, a shortened item, a bumped count — each inner entry must be decoded strictly
    import struct
    def svec_parse(b_):
        if len(b_) < 4: return None
        n_ = struct.unpack_from("<I", b_, 0)[0]; off = 4; its = []
        for _ in range(n_):
            if off + 4 > len(b_): return None
            ln = struct.unpack_from("<I", b_, off)[0]; its.append(b_[off + 4: off + 4 + ln]); off += 4 + ln
        return its if off == len(b_) else None
    def svec_build(its, count=None):
        return struct.pack("<I", len(its) if count is None else count) + b"".join(struct.pack("<I", len(x)) + x for x in its)
    nsurg = {}
    for c, o in zip(st1, o1):
        kind = c["_kind"]
        if not kind.startswith("vec_") or not (isinstance(o, str) and o.startswith("x:")) or c["ctx"].endswith("2048"):
            continue
        its = svec_parse(wire.unhx(o))
        if not its:
            continue
        nsurg[(c["ctx"], kind)] = nsurg.get((c["ctx"], kind), 0) + 1
        if nsurg[(c["ctx"], kind)] > 3:
            continue
        for i in sorted({0, len(its) - 1, len(its) // 2}):
            for extra in (b"\x00", b"\xff", its[i][-1:] * 2, its[i]):
                v = list(its); v[i] = v[i] + extra
                st2.append({"ctx": c["ctx"], "op": "de_" + kind, "args": [hexb(svec_build(v))], "_err": True, "_src": c, "tag": "inside an item appended"})
            if len(its[i]) > 0:
                v = list(its); v[i] = v[i][:-1]
                st2.append({"ctx": c["ctx"], "op": "de_" + kind, "args": [hexb(svec_build(v))], "_src": c, "tag": "item-truncated"})
        st2.append({"ctx": c["ctx"], "op": "de_" + kind, "args": [hexb(svec_build(its, count=len(its) + 1))], "_err": True, "_src": c, "tag": "count+1 appended"})
    o2 = env.harness(st2)
    for c, o in zip(st2, o2):
        if c["op"] != "de_vec_cp" or True:
            items.append((c, c["ctx"], c["op"], c["args"], o))
        if o == "panic":
            env.violation("%s panics (%s) on %s" % (c["op"], c["tag"], c["ctx"]), {"kind": "battery", "case": c})
        if c["tag"] == "roundtrip":
            if c["_want"] is not None and o != c["_want"]:
                env.violation("%s(%s(v)) != v on %s: %s" % (c["op"], c["_src"]["op"], c["ctx"], str(o)[:80]), {"kind": "battery", "case": [c["_src"], c], "out": o})
            if c["_want"] is None and not isinstance(o, list):
                env.violation("private key does not round-trip on %s: %s" % (c["ctx"], o), {"kind": "battery", "case": [c["_src"], c], "out": o})
        if c.get("_err") and o != "err":
            env.violation("%s accepts an encoding with a byte %s on %s" % (c["op"], c["tag"], c["ctx"]), {"kind": "battery", "case": [c["_src"], c], "out": o})
    # shuffle proofs
    specs = []
    for fl in "BM":
        specs.append({"ctx": "%s:23" % fl, "n": 2, "perm": None}); specs.append({"ctx": "%s:%s" % (fl, P62), "n": 3, "perm": None})
    it2 = shuf.make_statements(env, specs)
    live = shuf.prove(env, specs, it2)
    st3 = []
    for sp in live:
        b = wire.unhx(sp["_proof"])
        st3.append({"ctx": sp["ctx"], "op": "de_proof", "args": [sp["_proof"]], "_want": sp["_proof"], "tag": "proof-roundtrip"})
        st3.append({"ctx": sp["ctx"], "op": "de_proof", "args": [hexb(b + b"\x01")], "_err": True, "tag": "proof-appended"})
        st3.append({"ctx": sp["ctx"], "op": "de_proof", "args": [hexb(b[:-1])], "_err": True, "tag": "proof-truncated"})
        st3.append({"ctx": sp["ctx"], "op": "de_proof", "args": [hexb(b[:len(b) // 2])], "_err": True, "tag": "proof-truncated"})
        for _ in range(3 if env.quick else 12):
            i = r.randrange(len(b)); bb = bytearray(b); bb[i] ^= 1 << r.randrange(8)
            st3.append({"ctx": sp["ctx"], "op": "de_proof", "args": [hexb(bytes(bb))], "tag": "proof-bitflip"})
    for c, o in zip(st3, env.harness(st3)):
        items.append((c, c["ctx"], c["op"], c["args"], o))
        if "_want" in c and o != c["_want"]:
            env.violation("shuffle proof does not round-trip on %s" % c["ctx"], {"kind": "battery", "case": c, "out": o})
        if c.get("_err") and o != "err":
            env.violation("de_proof accepts (%s) on %s" % (c["tag"], c["ctx"]), {"kind": "battery", "case": c, "out": o})
    items = [it for it in items if it is not None]
    fails = env.tie(items, "C12", shard=400)
    # ristretto
    L = 2 ** 252 + 27742317777372353535851937790883648493
    pts = env.harness([{"ctx": "R", "op": "gpow", "args": [str(x)], "tag": "ristretto"} for x in (0, 1, L - 1, r.randrange(L))])
    rc = []
    for pt in pts:
        rc.append({"ctx": "R", "op": "ser_e", "args": [pt], "_want": pt, "tag": "ristretto"})
    for x in (0, 1, L - 1, r.randrange(L)):
        rc.append({"ctx": "R", "op": "ser_x", "args": [str(x)], "_wantx": x, "tag": "ristretto"})
    rc.append({"ctx": "R", "op": "ser_c", "args": [[pts[1], pts[2]]], "_len": 64, "tag": "ristretto"})
    rc.append({"ctx": "R", "op": "ser_vec_e", "args": [pts], "_len": 4 + 4 * 36, "tag": "ristretto"})
    ro = env.harness(rc)
    rc2 = []
    for c, o in zip(rc, ro):
        b = wire.unhx(o)
        if "_want" in c and o != c["_want"]:
            env.violation("ristretto element wire form is not its 32-byte compression", {"kind": "battery", "case": c, "out": o})
        if "_wantx" in c and int.from_bytes(b, "little") != c["_wantx"]:
            env.violation("ristretto exponent wire form is not 32-byte LE", {"kind": "battery", "case": c, "out": o})
        if "_len" in c and len(b) != c["_len"]:
            env.violation("ristretto %s has unexpected length %d" % (c["op"], len(b)), {"kind": "battery", "case": c})
        de = "de_" + c["op"][4:]
        rc2.append({"ctx": "R", "op": de, "args": [o], "_want": c["args"][0], "tag": "ristretto"})
        rc2.append({"ctx": "R", "op": de, "args": [hexb(b + b"\x00")], "_err": True, "tag": "ristretto"})
        rc2.append({"ctx": "R", "op": de, "args": [hexb(b[:-1])], "_err": True, "tag": "ristretto"})
    for c, o in zip(rc2, env.harness(rc2)):
        if "_want" in c and o != c["_want"]:
            env.violation("ristretto %s does not round-trip" % c["op"], {"kind": "battery", "case": c, "out": o})
        if c.get("_err") and o != "err":
            env.violation("ristretto %s accepts appended/removed byte" % c["op"], {"kind": "battery", "case": c, "out": o})
    if fails:
        env.tie_violation("C12", fails)
