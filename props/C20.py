# C20 — Ed25519 signatures: valid verify, altered are rejected, encodings round-trip
import base64
from props.util import *
from props import wire

TRUSTED = BASE_TRUSTED + ["wrapper theorems treat ed25519-zebra / ed25519-dalek as abstract primitives (Section parameters); the wrapper tie answers them by direct library calls through the harness",
                          "Model/Ed25519.v is an executable RFC 8032 model (Gallina SHA-512 + edwards25519 arithmetic + both libraries' verification rules) tied to the libraries by correspondence: it removes the oracle for key derivation, signing and verification decisions on the sampled cases, but the curve's group law is not proved",
                          "rejection of bit-flipped messages/signatures/keys is Ed25519's unforgeability (computational): observed on the implementation, not a theorem"]
RULE = ("keys from scripted RNG (both frontends, same seed bytes), messages of length 0, 1, 31..65, 4 KiB, 32 KiB (+1), 64 KiB (+1), 200 kB (thorough up to 4 MiB): "
        "sign / verify / (de)serialize / to_string / from_string of both frontends compared with the Gallina wrapper+base64 model "
        "whose primitives are answered by direct library calls; cross-frontend matrix (same signatures, mutual acceptance); every "
        "single-bit flip of the signature (512) and public key (256) and of short messages must fail to verify; malformed byte "
        "and base64 strings (padding, non-alphabet, length 1 mod 4, non-zero trailing bits, wrong decoded length) are rejected")

K = {"sk": 0, "pk": 1, "sig": 2}


def run(env):
    r = env.rng
    items = []
    D = "B:23"      # dummy parameter context for the backend-independent model ops
    keys = []
    seeds = [bytes(32), b"\xff" * 32] + [r.randbytes(32) for _ in range(3 if env.quick else 12)]
    g = []
    for sd in seeds:
        for fe in "zd":
            g.append({"ctx": "S", "op": "gen", "args": [fe, hexb(sd + r.randbytes(64))], "tag": "gen"})
    go = env.harness(g)
    for i in range(0, len(g), 2):
        (skz, pkz, uz), (skd, pkd, ud) = go[i], go[i + 1]
        if skz != skd or pkz != pkd:
            env.violation("the two frontends derive different keys from the same random bytes", {"kind": "battery", "case": [g[i], g[i + 1]], "out": [go[i], go[i + 1]]})
        if skz != g[i]["args"][1][:66]:
            env.violation("generated signing key is not the 32 bytes drawn from the RNG", {"kind": "battery", "case": g[i], "out": go[i]})
        keys.append((skz, pkz))
    rp = env.harness([{"ctx": "S", "op": "raw_pk", "args": [lib, sk], "tag": "raw"} for sk, _ in keys for lib in "zd"])
    for i, (sk, pk) in enumerate(keys):
        if rp[2 * i] != pk or rp[2 * i + 1] != pk:
            env.violation("public key of the wrapper differs from the library's", {"kind": "battery", "case": {"sk": sk}})
    # message lengths include the sizes at which a frontend might switch to chunked / pre-hashed signing
    big_lens = (4096, 32768, 32769, 65536, 65537, 200000) if env.quick else (4095, 4096, 4097, 16384, 32767, 32768, 32769, 65535, 65536, 65537, 131073, 1 << 20, (1 << 22) + 1)
    msgs = [b"", b"\x00", b"ok"] + [r.randbytes(n) for n in (31, 32, 33, 63, 64, 65)] + [r.randbytes(n) for n in big_lens]
    st = []
    for sk, pk in keys[: (3 if env.quick else len(keys))]:
        for m in msgs:
            for fe in "zd":
                st.append({"ctx": "S", "op": "sign", "args": [fe, sk, hexb(m)], "tag": "sign", "_pk": pk})
                st.append({"ctx": "S", "op": "raw_sign", "args": [fe, sk, hexb(m)], "tag": "raw"})
    so = env.harness(st)
    vt = []
    for i in range(0, len(st), 4):
        sz, rz, sd_, rd = so[i], so[i + 1], so[i + 2], so[i + 3]
        c = st[i]; sk, m = c["args"][1], c["args"][2]
        if not (sz == rz == sd_ == rd):
            env.violation("signatures differ between frontends / from the underlying library for the same key and message",
                          {"kind": "battery", "case": c, "out": [sz, rz, sd_, rd]})
        for fe, s_, raw in (("z", sz, rz), ("d", sd_, rd)):
            if len(m) < 300:
                items.append((c, D, "sig_sign", [sk, m, [[sk, True]], raw], s_))
        for fe in "zd":
            vt.append({"ctx": "S", "op": "verify", "args": [fe, c["_pk"], sz, m], "_want": True, "tag": "verify-cross"})
        # a signature on a long message is not a signature on its digest (no silent pre-hashing)
        if len(m) > 2 * 1000 + 2:
            import hashlib as _h
            mb = bytes.fromhex(m[2:])
            for fe in "zd":
                for dg in (_h.sha512(mb).digest(), _h.sha256(mb).digest(), mb[:64]):
                    vt.append({"ctx": "S", "op": "verify", "args": [fe, c["_pk"], sz, hexb(dg)], "_want": False, "tag": "verify-digest-of-message"})
        # another key must not verify
        other = [k for k in keys if k[1] != c["_pk"]][0][1]
        for fe in "zd":
            vt.append({"ctx": "S", "op": "verify", "args": [fe, other, sz, m], "_want": False, "tag": "verify-other-key"})
    # bit flips on one (key, message) per frontend
    sk, pk = keys[2]
    m = msgs[3]
    sig = env.harness([{"ctx": "S", "op": "sign", "args": ["z", sk, hexb(m)]}])[0]
    sb, pb, mb = wire.unhx(sig), wire.unhx(pk), m
    for fe in "zd":
        for i in range(512 if not env.quick else 512):
            b = bytearray(sb); b[i // 8] ^= 1 << (i % 8)
            vt.append({"ctx": "S", "op": "verify", "args": [fe, pk, hexb(bytes(b)), hexb(m)], "_want": False, "tag": "flip-signature"})
        for i in range(256):
            b = bytearray(pb); b[i // 8] ^= 1 << (i % 8)
            vt.append({"ctx": "S", "op": "verify", "args": [fe, hexb(bytes(b)), sig, hexb(m)], "_want": False, "tag": "flip-public-key"})
        for i in range(8 * len(mb)):
            b = bytearray(mb); b[i // 8] ^= 1 << (i % 8)
            vt.append({"ctx": "S", "op": "verify", "args": [fe, pk, sig, hexb(bytes(b))], "_want": False, "tag": "flip-message"})
    raws = env.harness([{"ctx": "S", "op": "raw_verify", "args": c["args"], "tag": "raw"} for c in vt])
    vo = env.harness(vt)
    for c, o, rw in zip(vt, vo, raws):
        if c["_want"] is True and o is not True:
            env.violation("valid signature rejected (%s, frontend %s)" % (c["tag"], c["args"][0]), {"kind": "battery", "case": c, "out": o})
        if c["_want"] is False and o is True:
            env.violation("altered signature/key/message accepted (%s, frontend %s)" % (c["tag"], c["args"][0]), {"kind": "battery", "case": c, "out": o})
        if o != rw:
            env.violation("wrapper verify (%s) disagrees with the underlying library (%s)" % (o, rw), {"kind": "battery", "case": c, "out": [o, rw]})
        if len(c["args"][3]) < 300 and c["tag"] in ("verify-cross", "verify-other-key") or (c["tag"].startswith("flip") and hash(str(c["args"])) % 16 == 0):
            pkv = rw != "de_err_pk"; sgv = rw != "de_err_sig"
            exp = o if isinstance(o, bool) else "err"
            items.append((c, D, "sig_verify", [c["args"][1], c["args"][2], c["args"][3], [[c["args"][1], pkv], [c["args"][2], sgv]], rw is True], exp))
    # string forms
    st2 = []
    for sk_, pk_ in keys[:3]:
        for fe in "zd":
            st2.append({"ctx": "S", "op": "to_string", "args": [fe, "sk", sk_], "tag": "to_string"})
            st2.append({"ctx": "S", "op": "to_string", "args": [fe, "pk", pk_], "tag": "to_string"})
            st2.append({"ctx": "S", "op": "to_string", "args": [fe, "sig", sig], "tag": "to_string"})
    o2 = env.harness(st2)
    st3 = []
    for c, o in zip(st2, o2):
        kind = c["args"][1]; b = c["args"][2]
        items.append((c, D, "sig_to_string", [K[kind], b, [[b, True]]], hexb(o.encode()) if isinstance(o, str) and not o.startswith("x:") and o not in ("err",) else o))
        if not isinstance(o, str) or o in ("err", "panic"):
            env.violation("to_string failed for a valid %s" % kind, {"kind": "battery", "case": c, "out": o}); continue
        if o != base64.b64encode(wire.unhx(b)).decode().rstrip("="):
            env.violation("string form is not unpadded standard base64 of the bytes", {"kind": "battery", "case": c, "out": o})
        st3.append({"ctx": "S", "op": "from_string", "args": [c["args"][0], kind, o], "_want": b, "tag": "from_string"})
        bad = [o + "=", o + "==", o[:-1], o + "A", o[:5] + "-" + o[6:], o[:5] + "\n" + o[5:], " " + o, o[:-1] + ("B" if o[-1] != "B" else "C"), "", "A", o + o]
        for s_ in bad:
            st3.append({"ctx": "S", "op": "from_string", "args": [c["args"][0], kind, s_], "_bad": True, "tag": "from_string-malformed"})
    o3 = env.harness(st3)
    # oracle answers for whatever bytes the malformed strings might decode to
    probes = []
    for c in st3:
        try:
            s_ = c["args"][2]
            cand = base64.b64decode(s_ + "=" * (-len(s_) % 4), validate=True)
        except Exception:
            cand = None
        c["_cand"] = cand
        if cand is not None:
            probes.append({"ctx": "S", "op": {"sk": "sk_de", "pk": "pk_de", "sig": "sig_de"}[c["args"][1]], "args": [c["args"][0], hexb(cand)], "tag": "oracle"})
    po = iter(env.harness(probes))
    for c, o in zip(st3, o3):
        tbl = []
        if c["_cand"] is not None:
            ok = next(po) not in ("err", "panic")
            tbl = [[hexb(c["_cand"]), ok]]
        items.append((c, D, "sig_from_string", [K[c["args"][1]], hexb(c["args"][2].encode()), tbl], o))
        if "_want" in c and o != c["_want"]:
            env.violation("from_string(to_string(x)) != x for %s" % c["args"][1], {"kind": "battery", "case": c, "out": o})
        if c.get("_bad") and o not in ("err",) and c["args"][2] != "":
            # a malformed string may only be accepted if it is itself the canonical encoding of valid bytes
            canon = isinstance(o, str) and o.startswith("x:") and base64.b64encode(wire.unhx(o)).decode().rstrip("=") == c["args"][2]
            if not canon:
                env.violation("from_string accepts a malformed string %r" % c["args"][2][:30], {"kind": "battery", "case": c, "out": o})
    # wrong lengths through the byte decoders
    st4 = []
    for fe in "zd":
        for kind, op, n in (("sk", "sk_de", 32), ("pk", "pk_de", 32), ("sig", "sig_de", 64)):
            for ln in (0, n - 1, n + 1, 2 * n):
                st4.append({"ctx": "S", "op": op, "args": [fe, hexb(r.randbytes(ln))], "_k": kind, "tag": "wrong-length"})
    for c, o in zip(st4, env.harness(st4)):
        items.append((c, D, "sig_deserialize", [K[c["_k"]], c["args"][1], []], o if o == "err" else "x:bad"))
        if o != "err":
            env.violation("%s accepts %d bytes" % (c["op"], len(wire.unhx(c["args"][1]))), {"kind": "battery", "case": c, "out": o})
    # ---- Ed25519 itself: the Gallina RFC 8032 model (Model/Ed25519.v: SHA-512, edwards25519 arithmetic, both
    # libraries' verification rules) recomputes public keys, signatures and verification decisions
    ed = []
    for (sk_, pk_), c_ in zip(keys, g[::2]):
        ed.append((c_, "R", "ed_pk", [sk_], pk_))
        ed.append((c_, "R", "ed_pk_unreduced", [sk_], pk_))
    sg_items = [(st[i], "R", "ed_sign", [st[i]["args"][1], st[i]["args"][2]], so[i]) for i in range(0, len(st), 2)
                if len(st[i]["args"][2]) < 20000]
    r.shuffle(sg_items)
    ed += sg_items[: (12 if env.quick else 120)]
    vf = {}
    for c_, o_ in zip(vt, vo):
        vf.setdefault(c_["tag"], []).append((c_, "R", "ed_verify_" + c_["args"][0], c_["args"][1:], "err" if o_ == "de_err_pk" else o_))
    for tag, lst in sorted(vf.items()):
        lst = [x for x in lst if len(x[3][2]) < 20000]
        r.shuffle(lst)
        ed += lst[: (10 if env.quick else 100)]
    # adversarial encodings: small-order and non-canonical points as A and R, S >= l
    Pf = 2 ** 255 - 19
    Lq = 2 ** 252 + 27742317777372353535851937790883648493
    special = [(1).to_bytes(32, "little"), bytes(32), (Pf - 1).to_bytes(32, "little"), Pf.to_bytes(32, "little"), (Pf + 1).to_bytes(32, "little"),
               (1 + 2 ** 255).to_bytes(32, "little"), bytes.fromhex("26e8958fc2b227b045c3f489f2ef98f0d5dfac05d3c63339b13802886d53fc05"),
               bytes.fromhex("c7176a703d4dd84fba3c0b760d10670f2a2053fa2c39ccc64ec7fd7792ac037a"),
               bytes.fromhex("ecffffffffffffffffffffffffffffffffffffffffffffffffffffffffffff7f"), bytes.fromhex("eeffffffffffffffffffffffffffffffffffffffffffffffffffffffffffff7f")]
    Sv = int.from_bytes(sb[32:], "little")
    adv = [(pk, hexb(sb[:32] + (Sv + Lq).to_bytes(32, "little")), hexb(m))]
    for sp in special[: (4 if env.quick else len(special))]:
        adv += [(hexb(sp), sig, hexb(m)), (hexb(sp), hexb(sp + bytes(32)), hexb(m)), (pk, hexb(sp + sb[32:]), hexb(m))]
    av = [{"ctx": "S", "op": "verify", "args": [fe, a_, b_, c_], "tag": "adversarial-encoding"} for (a_, b_, c_) in adv for fe in "zd"]
    for c_, o_ in zip(av, env.harness(av)):
        ed.append((c_, "R", "ed_verify_" + c_["args"][0], c_["args"][1:], "err" if o_ == "de_err_pk" else o_))
    env.note("Ed25519 model correspondence: %d cases (public keys, signatures, verification decisions incl. small-order / non-canonical encodings)" % len(ed))
    fails_ed = env.tie(ed, "C20-ed25519")
    if fails_ed:
        env.tie_violation("C20-ed25519 (Model/Ed25519.v vs ed25519-zebra / ed25519-dalek through strand's wrappers)", fails_ed)
    # plain base64 model against Python's implementation on random data (model conformance)
    b64 = [{"ctx": D, "op": "b64_encode", "args": [hexb(r.randbytes(n))], "tag": "b64"} for n in range(0, 70)]
    itb = [(c, D, "b64_encode", c["args"], hexb(base64.b64encode(wire.unhx(c["args"][0])).rstrip(b"="))) for c in b64]
    fails = env.tie(items + itb, "C20", shard=200)
    if fails:
        env.tie_violation("C20", fails)
