# helpers shared by property modules: parameter sets, input generators (inputs only, never oracles)
import random
from lib.common import SMALL, P62

Q2048 = None
P2048 = None


def load2048():
    global P2048, Q2048, G2048
    import re
    import os
    t = open(os.path.join(os.path.dirname(os.path.dirname(os.path.abspath(__file__))), "coq", "Generated", "Constants.v")).read()
    P2048 = int(re.search(r"p2048 : Z := (\d+)", t).group(1))
    Q2048 = int(re.search(r"q2048 : Z := (\d+)", t).group(1))
    G2048 = int(re.search(r"g2048 : Z := (\d+)", t).group(1))
    return P2048, Q2048, G2048


def pq(ctx):
    p = ctx.split(":")[1]
    if p == "2048":
        P, Q, G = load2048()
        return P, Q, G
    p = int(p)
    return p, (p - 1) // 2, 4


def members(p):
    return sorted({(x * x) % p for x in range(1, p)})


def rnd_member(rng, ctx):
    p, q, g = pq(ctx)
    return pow(g, rng.randrange(q), p)


def hexb(b):
    return "x:" + bytes(b).hex()


def script(rng, n=4096):
    return hexb(rng.randbytes(n))


def boundary_exps(q):
    return [0, 1, 2, q - 2, q - 1]


BASE_TRUSTED = [
    "Coq 8.16.1 kernel and its VM (vm_compute); no native_compute",
    "correspondence harness: /verif/harness (Rust, links /repo's working tree with feature strand_verif) and /verif/lib/common.py rendering cases into Gallina literals",
    "constants translator tools/gen_constants.py (regex over src/backend.rs)",
    "dependencies modelled, tied by correspondence only: num-bigint, malachite, num-modular, borsh, sha2, rand",
]


def script_for_exps(ctx, values, rng, pad=64):
    """num-bigint only: a script whose successive gen_biguint_below(q) draws are exactly `values`
    (each value < q, so no rejection). Malachite seeds are opaque: returns a random script."""
    p, q, g = pq(ctx)
    if not ctx.startswith("B"):
        return script(rng, 32 * len(values) + pad)
    bits = q.bit_length()
    nwords = (bits + 31) // 32
    rem = bits % 32
    out = b""
    for v in values:
        words = [(v >> (32 * i)) & 0xFFFFFFFF for i in range(nwords)]
        if rem:
            words[-1] = (words[-1] << (32 - rem)) & 0xFFFFFFFF
        for w in words:
            out += w.to_bytes(4, "little")
    return hexb(out + rng.randbytes(pad))


LABEL_POOL = ["x:", "x:616263", "x:2070616464656420200a", "x:fffe80c328", "x:62616c6c6f740d0a", "x:00", "x:" + "5a" * 65, "x:" + "c3a9" * 70,
              "x:" + "41" * 64, "x:" + "42" * 128, "x:" + "43" * 32]
# label lengths at which a "hash long labels" / "fixed buffer" shortcut would switch behaviour (exactly at, one below, one above)
BOUNDARY_LABEL_LENGTHS = [31, 32, 33, 63, 64, 65, 127, 128, 129, 255, 256, 257, 1023, 1024, 1025, 4095, 4096, 4097]


def boundary_labels(quick=True):
    ls = BOUNDARY_LABEL_LENGTHS if not quick else [32, 63, 64, 65, 128, 256, 1024, 4096]
    return ["x:" + bytes((7 * i + n) % 251 for i in range(n)).hex() for n in ls]


def label_pool(rng, k):
    """k-th label of a pool that mixes empty, ASCII, whitespace-padded, non-UTF-8, NUL, 65-byte and 140-byte labels."""
    return LABEL_POOL[k % len(LABEL_POOL)]


def label_variants(lab):
    """Labels that differ from `lab` (hex 'x:..') but that a sloppy normalisation would identify with it:
    appended / prepended whitespace and NUL, trimmed, truncated, lossy UTF-8, case-folded, SHA-512 / SHA-256 digests."""
    import hashlib
    b = bytes.fromhex(lab[2:])
    cands = [b + b"\x00", b + b" ", b + b"\n", b" " + b, b + b"\r\n", b"\t" + b, b.strip(), b[:-1], b[1:],
             b.decode("utf-8", errors="replace").encode("utf-8"), b.lower(), b.upper(),
             hashlib.sha512(b).digest(), hashlib.sha256(b).digest(), hashlib.sha512(b).hexdigest().encode(), b + b]
    out = []
    for c in cands:
        if c != b and c not in out:
            out.append(c)
    return ["x:" + c.hex() for c in out]
