# C13 — decoding and verifying untrusted data never panics and never over-allocates
import struct
from props.util import *
from props import wire, shuf

TRUSTED = BASE_TRUSTED + ["memory: the model-level statement (decoded data backed by consumed input, counts accepted only when backed) is proved in Proofs/SizeP.v; the allocator / OS are not modelled — heap use of the implementation is MEASURED (counting global allocator in the harness) against a linear bound",
                          "ristretto and Ed25519 decoders are exercised on the implementation only (no panic, bounded allocation)"]
RULE = ("for every wire type and every backend: random byte strings (length 0..600), valid encodings with bit flips / truncation / "
        "extension, u32 length prefixes replaced by 1, 2^16, 2^31, 2^32-1 at every vector position, out-of-range u16 digits; each "
        "decode runs under catch_unwind with a counting allocator: outcome class (value / error / never panic) equals the Gallina "
        "decoder's and peak heap use stays below 64*len+256KiB; check_proof on every vector-length combination, N=0 and "
        "mismatched list lengths (with C04) returns a decision"
        " Added in session 3: verifiers deriving their generators locally over statements of different sizes in one process;")

DE = ["de_e", "de_x", "de_p", "de_c", "de_pk", "de_sk", "de_schnorr", "de_cp", "de_vec_e", "de_vec_x", "de_vec_p", "de_vec_c", "de_vec_cp", "de_proof"]


def run(env):
    r = env.rng
    items = []
    cases = []
    def add(ctx, op, b, tag):
        cases.append({"ctx": ctx, "op": "peak:" + op, "args": [hexb(b)], "_op": op, "_len": len(b), "tag": tag})
    ctxs = ["B:23", "M:23", "B:%d" % P62, "M:%d" % P62] + (["B:2048", "M:2048"] if not env.quick else [])
    # valid seeds to mutate
    seeds = {}
    for ctx in ctxs + ["B:2048", "M:2048"]:
        fl = ctx[0]; P_, q_, g_ = pq(ctx)
        E = lambda v: wire.ser_int(fl, v)
        m = [rnd_member(r, ctx) for _ in range(6)]
        pf = {"t1": m[0], "t2": m[1], "t3": m[2], "t41": m[3], "t42": m[4], "t_hats": [m[5], m[0]], "s1": 1, "s2": q_ - 1, "s3": 3, "s4": 4,
              "s_hats": [5, 6], "s_primes": [7, 8], "cs": [m[0], m[1]], "c_hats": [m[2], m[3]]}
        if fl == "B":
            pl = wire.vec_u8((12345678901234567890).to_bytes(9, "little"))
        else:
            ds = (12345678901234567890).to_bytes(8, "big")
            pl = struct.pack("<I", len(ds)) + b"".join(struct.pack("<H", d) for d in ds)
        seeds[ctx] = {
            "de_e": E(m[0]), "de_x": E(q_ - 1), "de_p": pl, "de_c": E(m[0]) + E(m[1]), "de_pk": E(m[2]), "de_sk": E(5) + E(pow(g_, 5, P_)),
            "de_schnorr": E(m[0]) + E(1) + E(2), "de_cp": E(m[0]) + E(m[1]) + E(1) + E(2),
            "de_vec_e": wire.svec([E(m[0]), E(m[1]), E(m[2])]), "de_vec_x": wire.svec([E(1), E(2)]), "de_vec_p": wire.svec([pl, pl]),
            "de_vec_c": wire.svec([E(m[0]) + E(m[1]), E(m[2]) + E(m[3])]), "de_vec_cp": wire.svec([E(m[0]) + E(m[1]) + E(1) + E(2)]),
            "de_proof": wire.proof_bytes(fl, pf)}
    nrand = 6 if env.quick else 40
    for ctx in ctxs:
        for op in DE:
            seed = seeds[ctx][op]
            add(ctx, op, seed, "valid")
            for _ in range(nrand):
                add(ctx, op, r.randbytes(r.choice([0, 1, 3, 4, 5, 8, 9, 40, 600])), "random")
            for _ in range(nrand):
                b = bytearray(seed); i = r.randrange(len(b)); b[i] ^= 1 << r.randrange(8)
                add(ctx, op, bytes(b), "bitflip")
            for cut in sorted({0, 1, 3, 4, 5, len(seed) // 2, len(seed) - 1}):
                add(ctx, op, seed[:cut], "truncated")
            add(ctx, op, seed + b"\x00", "extended"); add(ctx, op, seed + seed, "extended")
            # tamper every u32 that looks like a length prefix
            for i in range(0, max(0, len(seed) - 3)):
                v = struct.unpack_from("<I", seed, i)[0]
                if v <= len(seed) and (i == 0 or v > 0):
                    for nv in (1, 2 ** 16, 2 ** 31, 2 ** 32 - 1):
                        b = bytearray(seed); struct.pack_into("<I", b, i, nv)
                        add(ctx, op, bytes(b), "length-prefix")
                    if env.quick and i > 40:
                        break
        if ctx[0] == "M":
            add(ctx, "de_p", bytes.fromhex("010000000001"), "digit>=256")
            add(ctx, "de_p", bytes.fromhex("02000000ff00ffff"), "digit>=256")
            add(ctx, "de_vec_p", wire.svec([bytes.fromhex("010000000001")]), "digit>=256")
    # huge claimed vector of vectors with a little real data
    for ctx in ctxs:
        for op in ("de_vec_e", "de_vec_c", "de_vec_cp", "de_proof", "de_p"):
            add(ctx, op, struct.pack("<I", 2 ** 32 - 1) + struct.pack("<I", 2 ** 32 - 1) * 50, "length-bomb")
            add(ctx, op, struct.pack("<I", 2 ** 24) + (struct.pack("<I", 0)) * 2000, "length-bomb")
    outs = env.harness(cases)
    worst = 0
    for c, o in zip(cases, outs):
        if o in ("panic", "abort", "not_run"):
            env.violation("%s %ss on %s input of %d bytes (%s)" % (c["_op"], o, c["tag"], c["_len"], c["ctx"]), {"kind": "battery", "case": c, "out": o})
            if not c["ctx"].endswith("2048") or c["tag"] == "valid":
                items.append((c, c["ctx"], c["_op"], c["args"], "panic"))
            continue
        val, peak = o
        if not c["ctx"].endswith("2048") or c["tag"] in ("valid", "truncated", "extended"):
            exp = val
            if c["_op"] == "de_sk" and isinstance(val, list):
                exp = val
            items.append((c, c["ctx"], c["_op"], c["args"], exp))
        bound = 64 * c["_len"] + 262144
        worst = max(worst, peak - 64 * c["_len"])
        if peak > bound:
            env.violation("%s requests %d heap bytes for a %d-byte input on %s (%s)" % (c["_op"], peak, c["_len"], c["ctx"], c["tag"]),
                          {"kind": "battery", "case": c, "peak": peak})
    env.note("largest (peak - 64*len) over all decodes: %d bytes" % worst)
    # verifiers on decodable but odd inputs: check_proof vector-length combinations / N=0 / mismatches (also in C04)
    specs = [{"ctx": "%s:23" % fl, "n": 2, "perm": None} for fl in "BM"] + [{"ctx": "%s:%d" % (fl, P62), "n": 1, "perm": None} for fl in "BM"]
    it2 = shuf.make_statements(env, specs)
    live = shuf.prove(env, specs, it2)
    vc = []
    for sp in live:
        fl = sp["ctx"][0]; pf = wire.parse_proof(fl, wire.unhx(sp["_proof"])); n = sp["n"]
        import itertools, copy
        for combo in itertools.product(range(0, n + 2), repeat=5):
            m = copy.deepcopy(pf)
            for k, ln in zip(("t_hats", "s_hats", "s_primes", "cs", "c_hats"), combo):
                m[k] = (m[k] + [m[k][-1]] * 2)[:ln]
            vc.append(shuf.check_case(sp, proof=wire.hx(wire.proof_bytes(fl, m)), tag="lengths"))
        vc.append(shuf.check_case(sp, es=[], out=[], gens=sp["_gens"][:1], tag="N=0"))
        # statement and proof resized consistently to k items, k = 0 (all-empty proof, one generator) .. n+1
        for k in range(0, n + 2):
            if k == n:
                continue
            m = copy.deepcopy(pf)
            for kk in ("t_hats", "s_hats", "s_primes", "cs", "c_hats"):
                m[kk] = (m[kk] + [m[kk][-1]] * 2)[:k]
            vc.append(shuf.check_case(sp, proof=wire.hx(wire.proof_bytes(fl, m)), es=(sp["_es"] + sp["_es"])[:k],
                                      out=(sp["_out"] + sp["_out"])[:k], gens=(sp["_gens"] + sp["_gens"][1:])[:k + 1],
                                      tag="N=0-empty-proof" if k == 0 else "resized-consistently"))
        vc.append(shuf.check_case(sp, out=sp["_out"][:-1], tag="mismatch"))
        vc.append(shuf.check_case(sp, out=sp["_out"] + sp["_out"], tag="mismatch"))
        vc.append(shuf.check_case(sp, es=sp["_es"] + sp["_es"], gens=sp["_gens"] + sp["_gens"][1:], tag="mismatch"))
    for c, o in zip(vc, env.harness(vc)):
        items.append((c, c["ctx"], c["op"], c["args"], o))
        if o in ("panic", "abort", "not_run"):
            env.violation("check_proof %ss on a decodable proof (%s) on %s" % (o, c["tag"], c["ctx"]), {"kind": "battery", "case": c, "out": o})
    fails = env.tie(items + it2, "C13", shard=300)
    # ristretto + signature decoders: no panic on arbitrary bytes
    rc = []
    for op in DE[:2] + DE[3:8] + ["de_vec_e", "de_vec_x", "de_vec_c", "de_proof", "de_plain_vec_c"]:
        for _ in range(10 if env.quick else 60):
            rc.append({"ctx": "R", "op": "peak:" + op, "args": [hexb(r.randbytes(r.choice([0, 31, 32, 33, 64, 96, 128, 200])))], "_len": 200, "tag": "ristretto"})
        rc.append({"ctx": "R", "op": "peak:" + op, "args": [hexb(struct.pack("<I", 2 ** 32 - 1) + bytes(64))], "_len": 68, "tag": "ristretto"})
    for fe in "zd":
        for op in ("sk_de", "pk_de", "sig_de"):
            for _ in range(10 if env.quick else 60):
                rc.append({"ctx": "S", "op": op, "args": [fe, hexb(r.randbytes(r.choice([0, 31, 32, 33, 63, 64, 65])))], "_len": 64, "tag": "signature"})
        for _ in range(10 if env.quick else 60):
            rc.append({"ctx": "S", "op": "verify", "args": [fe, hexb(r.randbytes(32)), hexb(r.randbytes(64)), hexb(r.randbytes(5))], "_len": 101, "tag": "signature"})
            rc.append({"ctx": "S", "op": "from_string", "args": [fe, r.choice(["sk", "pk", "sig"]), "".join(r.choice("ABCabc019+/=- \n") for _ in range(r.choice([0, 1, 43, 44, 86, 88])))], "_len": 90, "tag": "signature"})
    # ristretto verifier on hand-made decodable proofs: the all-empty proof (5 identity points, 4 zero scalars, five
    # zero counts = 308 zero bytes) against N = 0 with one generator; the same bytes against N = 1; and a proof
    # whose vectors have one identity / zero item each against N = 1 and N = 2
    g1 = env.harness([{"ctx": "R", "op": "generators", "args": [str(k), "x:"], "tag": "ristretto"} for k in (1, 2, 3)])
    idp = "00" * 32
    pf0 = "x:" + "00" * 308
    one = lambda item: "01000000" + "20000000" + item
    pf1 = "x:" + idp * 5 + one(idp) + "00" * 128 + one("00" * 32) + one("00" * 32) + one(idp) + one(idp)
    pkR = env.harness([{"ctx": "R", "op": "pk_of_sk", "args": ["5"]}])[0]
    ctR = [g1[0][0], g1[0][0]]
    for (gens, pfb, es, tag) in ((g1[0], pf0, [], "N=0 all-empty proof"), (g1[1], pf0, [ctR], "N=1 all-empty proof"),
                                (g1[1], pf1, [ctR], "N=1 identity proof"), (g1[2], pf1, [ctR, ctR], "N=2 one-item proof"),
                                (g1[0], pf1, [], "N=0 one-item proof")):
        rc.append({"ctx": "R", "op": "check_proof", "args": [pkR, gens, pfb, es, es, "x:"], "_len": 400, "tag": "ristretto-verifier " + tag})
    # verifiers that derive their generators locally, several statements of DIFFERENT sizes in one process (large first, then
    # small, then large again): each honest proof must be accepted, none may panic
    for ctx in ("R", "B:2039", "M:%d" % P62):
        loc = []
        for n in (9, 3, 1, 12, 2):
            if ctx == "R":
                L_ = 2 ** 252 + 27742317777372353535851937790883648493
                els = env.harness([{"ctx": "R", "op": "gpow", "args": [str(r.randrange(L_))]} for _ in range(2 * n)])
                es_ = [[els[2 * i], els[2 * i + 1]] for i in range(n)]; pk_ = pkR
            else:
                P_, q_, g_ = pq(ctx); pk_ = str(pow(g_, 5, P_))
                es_ = [[str(rnd_member(r, ctx)), str(rnd_member(r, ctx))] for _ in range(n)]
            gens_ = env.harness([{"ctx": ctx, "op": "generators", "args": [str(n + 1), "x:6c6f63"], "tag": "local-generators"}])[0]
            sh_ = env.harness([{"ctx": ctx, "op": "gen_shuffle", "args": [pk_, es_, script(r, 200 * n + 512)], "tag": "local-generators"}])[0]
            pr_ = env.harness([{"ctx": ctx, "op": "gen_proof", "args": [pk_, gens_, es_, sh_[0], sh_[1], sh_[2], "x:", script(r, 100 * (4 * n + 4) + 512)], "tag": "local-generators"}])[0]
            loc.append({"ctx": ctx, "op": "check_proof_localgens", "args": [pk_, "x:6c6f63", pr_[0], es_, sh_[0], "x:"], "tag": "verifier-local-generators N=%d" % n})
        lo = env.harness(loc)
        if lo != [True] * len(loc):
            k_ = next(i for i, o in enumerate(lo) if o is not True)
            env.violation("a verifier deriving its generators locally returns %s for the honest proof #%d (%s) after verifying statements of other sizes in the same process on %s"
                          % (lo[k_], k_, loc[k_]["tag"], ctx), {"kind": "battery", "case": loc[: k_ + 1], "out": lo})
    for c, o in zip(rc, env.harness(rc)):
        if c["op"] == "check_proof" and o not in (True, False, "err"):
            env.violation("ristretto check_proof returns %s on a decodable hand-made proof (%s)" % (o, c["tag"]), {"kind": "battery", "case": c, "out": o})
        if o in ("panic", "abort", "not_run"):
            env.violation("%s %ss on arbitrary input (%s)" % (c["op"], o, c["ctx"]), {"kind": "battery", "case": c, "out": o})
        elif c["op"].startswith("peak:") and isinstance(o, list) and o[1] > 64 * c["_len"] + 262144:
            env.violation("%s requests %d heap bytes on a short input" % (c["op"], o[1]), {"kind": "battery", "case": c})
    if fails:
        env.tie_violation("C13", fails)
