# C15 — group / exponent laws, canonical results, constants, cross-backend agreement
from props.util import *

TRUSTED = BASE_TRUSTED + [
    "hypothesis in the 2048-bit instance theorem: prime p2048 /\\ prime q2048 (not certifiable here); everything else about the constants is kernel-checked",
    "ristretto255: the Edwards group law and the model's point arithmetic are proved (Base/Edwards.v, Proofs/RistrettoGroup.v); the 4-torsion quotient (RFC 9496 ENCODE/DECODE/equality on cosets) and the curve order are not, so the generic Laws record is not instantiated for ristretto; the model is tied to curve25519-dalek by correspondence",
    "Print Assumptions of constants theorems lists Coq's primitive 63-bit integer axioms (Bignums.BigZ evaluator used to compute g^q mod p at 2048 bits)",
]
RULE = ("exhaustive tables of every element/exponent method over all residues of p=23 (and 47 in thorough) on both "
        "multiplicative backends, boundary + random operands at 16, 62 and 2048 bits; a case is non-trivial when its "
        "(ctx, op, args) triple is new; every case is evaluated by the Gallina model inside Coq and compared"
        " Added in session 3: exponents 2..39 and 2^k-1, 2^k, 2^k+1 on every parameter set in one process;")

UN = ["emodp", "einvp", "gpow", "xmodq", "xinvq", "xfrom_u64", "cmodulo", "cexpmodulo"]
BIN_E = ["emul", "emulp", "edivp", "eeq"]
BIN_X = ["xadd", "xsub", "xmul", "xdivq", "xsubmod"]


def run(env):
    cases = []
    def add(ctx, op, args, tag):
        cases.append({"ctx": ctx, "op": op, "args": [str(a) for a in args], "tag": tag})
    smalls = [23] if env.quick else [23, 47]
    for p in smalls:
        q = (p - 1) // 2
        for fl in "BM":
            ctx = "%s:%d" % (fl, p)
            add(ctx, "gen", [], "const"); add(ctx, "one", [], "const")
            for a in range(p):
                for op in ("emodp", "einvp", "cmodulo"):
                    add(ctx, op, [a], "exh-unary")
                for b in range(p):
                    for op in BIN_E:
                        add(ctx, op, [a, b], "exh-elem")
                for x in range(0, 2 * q + 2):
                    add(ctx, "epow", [a, x], "exh-pow")
            for x in range(0, 2 * q + 3):
                for op in ("gpow", "xmodq", "xinvq", "xfrom_u64", "cexpmodulo"):
                    add(ctx, op, [x], "exh-unary")
                for y in range(0, 2 * q + 3):
                    for op in BIN_X:
                        add(ctx, op, [x, y], "exh-exp")
            # unreduced operands (products of two residues)
            for a in (p, p + 1, p * p - 1, 2 * p + 3):
                add(ctx, "emodp", [a], "unreduced")
    env.exhaustive = True
    # boundary + random at larger sizes
    big = [("65267", 40 if env.quick else 200), (str(P62), 60 if env.quick else 400), ("2048", 3 if env.quick else 24)]
    for pstr, n in big:
        for fl in "BM":
            ctx = "%s:%s" % (fl, pstr)
            p, q, g = pq(ctx)
            add(ctx, "gen", [], "const")
            bx = [0, 1, q - 1, q, 2 * q - 1]
            belems = [1, g, pow(g, q - 1, p), p - 1 if False else pow(g, 2, p)]
            r = env.rng
            if pstr != "2048":
                for a in belems:
                    for x in bx:
                        add(ctx, "epow", [a, x], "boundary")
                    add(ctx, "einvp", [a], "boundary")
                for x in bx:
                    add(ctx, "gpow", [x], "boundary")
                    for y in bx:
                        for op in ("xadd", "xmul", "xsubmod", "xsub"):
                            add(ctx, op, [x, y], "boundary")
                    add(ctx, "xmodq", [x], "boundary")
                    if x % q != 0:
                        add(ctx, "xinvq", [x], "boundary")
            else:
                add(ctx, "epow", [g, q], "boundary")
                add(ctx, "gpow", [q - 1], "boundary")
                add(ctx, "einvp", [g], "boundary")
                add(ctx, "xsubmod", [0, q - 1], "boundary")
            # small and power-of-two exponents on every parameter set (fixed-base tables / windows are indexed by the low
            # bits; all sets run in ONE process, so anything cached across calls must be keyed by the parameter set)
            for x in (list(range(2, 40)) + [2 ** k + d for k in (6, 7, 8, 15, 16, 31, 32, 60) for d in (-1, 0, 1)] if pstr != "2048" else [3, 4, 5, 15, 16, 255, 256]):
                if x < 2 * q:
                    add(ctx, "gpow", [x], "small-exponent")
                    if pstr != "2048" or x in (5, 16):
                        add(ctx, "epow", [pow(g, 3, p), x], "small-exponent")
            for _ in range(n):
                a = rnd_member(r, ctx); b = rnd_member(r, ctx)
                x = r.randrange(q); y = r.randrange(q)
                add(ctx, "emulp", [a, b], "random")
                add(ctx, "epow", [a, x], "random")
                add(ctx, "edivp", [a, b], "random")
                add(ctx, "xsubmod", [x, y], "random")
                add(ctx, "xdivq", [x, y if y else 1], "random")
                add(ctx, "xadd", [x, y], "random"); add(ctx, "xmul", [x, y], "random")
                add(ctx, "xmodq", [x * y + x], "random")
    # Domain: inversion / exponentiation bases are canonical (< modulus). malachite's mod_pow / mod_inverse
    # panic on unreduced operands (a documented precondition of that library) while num-bigint reduces
    # first; strand itself only ever passes reduced values there, so those inputs are outside the property.
    def keep(c):
        p, q, g = pq(c["ctx"])
        a = [int(x) for x in c["args"]]
        if c["op"] in ("epow", "einvp") and a[0] >= p: return False
        if c["op"] == "edivp" and a[1] >= p: return False
        if c["op"] == "xinvq" and a[0] >= q: return False
        if c["op"] == "xdivq" and a[1] >= q: return False
        return True
    cases = [c for c in cases if keep(c)]
    outs = env.harness(cases)
    items = [(c, c["ctx"], c["op"], c["args"], o) for c, o in zip(cases, outs)]
    small_items = [it for it in items if not it[1].endswith(":2048")]
    big_items = [it for it in items if it[1].endswith(":2048")]
    mism = env.tie(small_items, "C15-arith", shard=4000) + env.tie(big_items, "C15-arith-2048", shard=8)
    # battery: the two multiplicative backends return identical integers on identical inputs
    byk = {}
    for c, o in zip(cases, outs):
        k = (c["ctx"].split(":")[1], c["op"], tuple(c["args"]))
        byk.setdefault(k, {})[c["ctx"][0]] = (c, o)
    for k, d in byk.items():
        if "B" in d and "M" in d and d["B"][1] != d["M"][1]:
            env.violation("backends disagree on %s%s: num-bigint=%s malachite=%s" % (k[1], k[2], d["B"][1], d["M"][1]),
                          {"kind": "battery", "case": [d["B"][0], d["M"][0]], "outputs": [d["B"][1], d["M"][1]]})
            break
    # battery: group laws on implementation outputs alone (small set, exhaustive over members)
    p = 23; mem = members(p)
    for fl in "BM":
        ctx = "%s:%d" % (fl, p)
        tab = {}
        for c, o in zip(cases, outs):
            if c["ctx"] == ctx and c["op"] == "emulp":
                tab[(int(c["args"][0]), int(c["args"][1]))] = o
        for a in mem:
            for b in mem:
                for c3 in mem:
                    try:
                        l = tab[(int(tab[(a, b)]), c3)]; r_ = tab[(a, int(tab[(b, c3)]))]
                    except (KeyError, ValueError):
                        l, r_ = "?", "!"
                    if l != r_ or tab[(a, b)] != tab[(b, a)]:
                        env.violation("group law fails on %s for (%d,%d,%d)" % (ctx, a, b, c3),
                                      {"kind": "battery", "case": {"ctx": ctx, "op": "emulp", "args": [str(a), str(b)]}})
                        break
    if mism:
        env.tie_violation("C15-arith", mism)
