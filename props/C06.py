# C06 — sigma verifiers accept exactly hash-consistent, equation-satisfying proofs
from props.util import *

TRUSTED = BASE_TRUSTED + ["computational soundness (unforgeability under DL in the ROM) is NOT claimed: the theorems are the decision characterisation, response binding and special soundness"]
RULE = ("the whole Schnorr proof space (public, commitment, challenge, response) in members^2 x Z_q^2 of p=23 (14641 tuples "
        "per backend and label; a CP slice of the 11^6 space) decided by the implementation and by the Gallina verifier that "
        "hashes the complete transcript itself; adversarial families at 16/62/2048 bits: single-field mutations of honest "
        "proofs (each element/exponent replaced by neighbour, identity, generator), simulated transcripts with chosen "
        "challenge, one-equation CP proofs, statement/base swaps, label variants (whitespace / NUL appended or prepended, "
        "trimmed, truncated, lossy UTF-8, case-folded, SHA-512/SHA-256 digests, doubled) of empty / ASCII / padded / non-UTF-8 / "
        "65- and 140-byte labels, in-memory proofs with a non-canonical challenge c+q / c+2q, hash-consistent proofs of false statements made by "
        "the stock prover (publics perturbed so that weighted products of the two CP equations still balance, or one "
        "public alone); accepted mutants are failing inputs at >=62 bits"
        " Added in session 3: ONE Zkp value used for a whole sequence of proofs and verifications in three orders, compared with fresh instances;")


def run(env):
    r = env.rng
    cases = []
    p = 23; q = 11; mem = members(p)
    labels = ["x:"] if env.quick else ["x:", "x:01", "x:" + "ab" * 70]
    for fl in "BM":
        ctx = "%s:%d" % (fl, p)
        for lab in labels:
            for y in (mem if (fl == "B" or not env.quick) else mem[:2]):
                for t in mem:
                    for c in range(q):
                        for s in range(q):
                            cases.append({"ctx": ctx, "op": "schnorr_verify", "args": [str(y), None, [str(t), str(c), str(s)], lab], "tag": "space-schnorr"})
        # CP slice: fixed bases, all (y1, y2) x (c, s) with commitments derived to satisfy eq.1 or random
        for y1 in mem:
            for y2 in mem[: (4 if env.quick else 11)]:
                for c in range(q):
                    for s in range(0, q, (3 if env.quick else 1)):
                        t1 = (pow(4, s, p) * pow(pow(y1, c, p), -1, p)) % p     # satisfies equation 1
                        for t2 in (mem[(y1 + c) % len(mem)], (pow(9, s, p) * pow(pow(y2, c, p), -1, p)) % p):
                            cases.append({"ctx": ctx, "op": "cp_verify", "args": [str(y1), str(y2), None, "9", [str(t1), str(t2), str(c), str(s)], "x:"], "tag": "space-cp"})
    env.exhaustive = True
    outs = env.harness(cases)
    items = [(c, c["ctx"], c["op"], c["args"], o) for c, o in zip(cases, outs)]
    acc = sum(1 for o in outs if o is True)
    env.note("small proof space: %d tuples decided, %d accepted by the implementation" % (len(cases), acc))
    # adversarial families on larger groups
    st1 = []
    for pstr, n in [("65267", 4 if env.quick else 20), (str(P62), 6 if env.quick else 40), ("2048", 1 if env.quick else 4)]:
        for fl in "BM":
            ctx = "%s:%s" % (fl, pstr)
            P_, q_, g_ = pq(ctx)
            for _ in range(n):
                x = r.randrange(q_); lab = label_pool(r, len(st1) // 3) if pstr != "2048" else hexb(r.randbytes(r.choice([0, 3, 50])))
                g2 = rnd_member(r, ctx)
                st1.append({"ctx": ctx, "op": "schnorr_prove", "args": [str(x), str(pow(g_, x, P_)), None, lab, script(r, 1024)], "tag": "honest"})
                st1.append({"ctx": ctx, "op": "cp_prove", "args": [str(x), str(pow(g_, x, P_)), str(pow(g2, x, P_)), None, str(g2), lab, script(r, 1024)], "tag": "honest"})
                mhr = rnd_member(r, ctx)
                st1.append({"ctx": ctx, "op": "popk", "args": [str(x), str(mhr), str(pow(g_, x, P_)), lab, script(r, 1024)], "tag": "honest"})
    o1 = env.harness(st1)
    st2 = []
    def mut_elems(ctx, e):
        P_, q_, g_ = pq(ctx)
        return [str((int(e) * g_) % P_), "1", str(g_)]
    def mut_exps(ctx, x):
        P_, q_, g_ = pq(ctx)
        return [str((int(x) + 1) % q_), str((int(x) + q_ - 1) % q_), "0"]
    for c, o in zip(st1, o1):
        if not isinstance(o, list):
            continue
        ctx = c["ctx"]; a = c["args"]; pf = o[0]
        P_, q_, g_ = pq(ctx)
        big = int(ctx.split(":")[1]) > 2 ** 60 if ctx.split(":")[1] != "2048" else True
        def add(op, args, kind, must_reject=True):
            st2.append({"ctx": ctx, "op": op, "args": args, "tag": kind, "_must_reject": must_reject and big, "_src": c})
        if c["op"] == "schnorr_prove":
            add("schnorr_verify", [a[1], a[2], pf, a[3]], "honest", False)
            for i in range(3):
                for v in (mut_elems(ctx, pf[0]) if i == 0 else mut_exps(ctx, pf[i])):
                    if v == pf[i]: continue
                    m = list(pf); m[i] = v
                    add("schnorr_verify", [a[1], a[2], m, a[3]], "mut-proof-field")
            # in-memory proofs with a NON-canonical challenge c + q, c + 2q (constructible with the non-reducing
            # Exponent::add / mul; never decodable from bytes): the challenge is not the hash, so they must be rejected
            for kq in (1, 2):
                m = list(pf); m[1] = str(int(pf[1]) + kq * q_)
                add("schnorr_verify", [a[1], a[2], m, a[3]], "noncanonical-challenge")
                st2[-1]["_must_reject"] = True
            for v in mut_elems(ctx, a[1]):
                if v != a[1]: add("schnorr_verify", [v, a[2], pf, a[3]], "mut-public")
            add("schnorr_verify", [a[1], str(pow(g_, 2, P_)), pf, a[3]], "mut-base")
            for lv in (label_variants(a[3]) if not ctx.endswith(":2048") else [a[3] + "00"]):
                add("schnorr_verify", [a[1], a[2], pf, lv], "mut-label")
            # simulated transcript with freely chosen challenge: t = g^s * y^-c
            cch = r.randrange(q_); s = r.randrange(q_)
            t = (pow(g_, s, P_) * pow(pow(int(a[1]), cch, P_), -1, P_)) % P_
            add("schnorr_verify", [a[1], a[2], [str(t), str(cch), str(s)], a[3]], "simulated")
        elif c["op"] == "cp_prove":
            add("cp_verify", [a[1], a[2], a[3], a[4], pf, a[5]], "honest", False)
            for i in range(4):
                for v in (mut_elems(ctx, pf[i]) if i < 2 else mut_exps(ctx, pf[i])):
                    if v == pf[i]: continue
                    m = list(pf); m[i] = v
                    add("cp_verify", [a[1], a[2], a[3], a[4], m, a[5]], "mut-proof-field")
            for k in (1, 2, 4):
                for v in mut_elems(ctx, a[k]):
                    if v != a[k]:
                        aa = list(a); aa[k] = v
                        add("cp_verify", [aa[1], aa[2], aa[3], aa[4], pf, aa[5]], "mut-statement")
            for lv in (label_variants(a[5]) if not ctx.endswith(":2048") else [a[5] + "ff"]):
                add("cp_verify", [a[1], a[2], a[3], a[4], pf, lv], "mut-label")
            for kq in (1, 2):
                m = list(pf); m[2] = str(int(pf[2]) + kq * q_)
                add("cp_verify", [a[1], a[2], a[3], a[4], m, a[5]], "noncanonical-challenge")
                st2[-1]["_must_reject"] = True
            # false statement, only equation 1 holds: public2 replaced by g2^(x+1)
            y2 = (int(a[2]) * int(a[4])) % P_
            add("cp_verify", [a[1], str(y2), a[3], a[4], pf, a[5]], "one-equation")
            # simulated: chosen challenge
            cch = r.randrange(q_); s = r.randrange(q_)
            t1 = (pow(g_, s, P_) * pow(pow(int(a[1]), cch, P_), -1, P_)) % P_
            t2 = (pow(int(a[4]), s, P_) * pow(pow(int(a[2]), cch, P_), -1, P_)) % P_
            add("cp_verify", [a[1], a[2], a[3], a[4], [str(t1), str(t2), str(cch), str(s)], a[5]], "simulated")
        elif c["op"] == "popk":
            add("popk_verify", [a[1], a[2], pf, a[3]], "honest", False)
            add("popk_verify", [str((int(a[1]) * g_) % P_), a[2], pf, a[3]], "mut-mhr")
            for lv in (label_variants(a[3]) if not ctx.endswith(":2048") else [a[3] + "01"]):
                add("popk_verify", [a[1], a[2], pf, lv], "mut-label")
    # hash-consistent proofs of FALSE statements made by the stock prover (it hashes whatever statement it is given):
    # only the verification equations can reject them. Publics perturbed so that a weighted product
    # lhs1^alpha * lhs2^beta of the two CP equations still balances (catches "folded" / single-equation verifiers),
    # and each public perturbed alone.
    stf = []
    for pstr, n in [("65267", 2 if env.quick else 10), (str(P62), 3 if env.quick else 20), ("2048", 1 if env.quick else 3)]:
        for fl in "BM":
            ctx = "%s:%s" % (fl, pstr)
            P_, q_, g_ = pq(ctx)
            fams = [(1, 1), (1, q_ - 1), (2, 1), (1, 2), (3, 5), (1, 0), (0, 1)]
            if pstr == "2048" and env.quick:
                fams = [fams[r.randrange(2)], fams[5 + r.randrange(2)]]
            for _ in range(n):
                for (al, be) in fams:
                    x = r.randrange(q_); lab = hexb(r.randbytes(r.choice([0, 4])))
                    g2 = rnd_member(r, ctx); d = rnd_member(r, ctx)
                    while d == 1:
                        d = rnd_member(r, ctx)
                    if (al, be) == (1, 0):
                        d1, d2 = d, 1
                    elif (al, be) == (0, 1):
                        d1, d2 = 1, d
                    else:
                        d1 = pow(d, be, P_); d2 = pow(d, (q_ - al) % q_, P_)
                    y1 = (pow(g_, x, P_) * d1) % P_; y2 = (pow(g2, x, P_) * d2) % P_
                    stf.append({"ctx": ctx, "op": "cp_prove", "args": [str(x), str(y1), str(y2), None, str(g2), lab, script(r, 1024)],
                                "tag": "false-statement-prover", "_fam": (al, be)})
    of = env.harness(stf)
    for c, o in zip(stf, of):
        if not isinstance(o, list):
            continue
        ctx = c["ctx"]; a = c["args"]
        big = True if ctx.endswith(":2048") else int(ctx.split(":")[1]) > 2 ** 60
        st2.append({"ctx": ctx, "op": "cp_verify", "args": [a[1], a[2], a[3], a[4], o[0], a[5]],
                    "tag": "false-statement(%s,%s)" % ("a" if c["_fam"][0] else "0", "b" if c["_fam"][1] else "0"), "_must_reject": big, "_src": c})
    if env.quick:
        # 2048-bit model evaluations cost seconds each: keep a deterministic sample of the mutants there
        keep = []
        cnt = {}
        for c in st2:
            if c["ctx"].endswith(":2048"):
                k = (c["ctx"], c["op"], c["tag"])
                cnt[k] = cnt.get(k, 0) + 1
                if cnt[k] > 1:
                    continue
            keep.append(c)
        st2 = keep
    o2 = env.harness(st2)
    for c, o in zip(st2, o2):
        items.append((c, c["ctx"], c["op"], c["args"], o))
        if c["tag"] == "honest" and o is not True:
            env.violation("honest proof rejected on %s" % c["ctx"], {"kind": "battery", "case": [c["_src"], c]})
        if c["_must_reject"] and o is not False:
            env.violation("%s accepted on %s (%s must be rejected)" % (c["op"], c["ctx"], c["tag"]),
                          {"kind": "battery", "case": [c["_src"], c], "out": o})
    # one Zkp value used for a whole sequence of proofs and verifications (custom base first / default base first):
    # every answer must be what a fresh Zkp gives (state carried by an instance or by the process must not matter)
    for ctx in ("B:2039", "M:%d" % P62, "B:2048"):
        P_, q_, g_ = pq(ctx)
        x = r.randrange(2, q_); h = rnd_member(r, ctx); sk = r.randrange(2, q_); lab = "x:7365"
        mhr, gr_ = rnd_member(r, ctx), rnd_member(r, ctx)
        gx, hx, pk, fac = str(pow(g_, x, P_)), str(pow(h, x, P_)), str(pow(g_, sk, P_)), str(pow(gr_, sk, P_))
        pr = [["schnorr_prove", [str(x), hx, str(h), lab, script(r, 1024)]],
              ["schnorr_prove", [str(x), gx, None, lab, script(r, 1024)]],
              ["cp_prove", [str(x), gx, hx, None, str(h), lab, script(r, 1024)]],
              ["cp_prove", [str(x), hx, str(pow(gr_, x, P_)), str(h), str(gr_), lab, script(r, 1024)]],
              ["dec_proof", [str(sk), pk, fac, str(mhr), str(gr_), lab, script(r, 1024)]]]
        single = env.harness([{"ctx": ctx, "op": o_, "args": a_, "tag": "instance-reuse-ref"} for o_, a_ in pr])
        if any(not isinstance(o_, list) for o_ in single):
            env.violation("prover failed on a true statement on %s: %s" % (ctx, single), {"kind": "battery", "case": pr}); continue
        p_h, p_g, c_g, c_h, d_ = [o_[0] for o_ in single]
        ver = [["schnorr_verify", [hx, str(h), p_h, lab]], ["schnorr_verify", [gx, None, p_g, lab]], ["schnorr_verify", [gx, str(g_), p_g, lab]],
               ["cp_verify", [gx, hx, None, str(h), c_g, lab]], ["cp_verify", [hx, str(pow(gr_, x, P_)), str(h), str(gr_), c_h, lab]],
               ["verify_decryption", [pk, fac, str(mhr), str(gr_), d_, lab]],
               ["schnorr_verify", [gx, str(h), p_g, lab]], ["schnorr_verify", [hx, None, p_h, lab]],      # base exchanged: must be rejected
               ["cp_verify", [gx, hx, str(h), str(h), c_g, lab]]]
        vsingle = env.harness([{"ctx": ctx, "op": o_, "args": a_, "tag": "instance-reuse-ref"} for o_, a_ in ver])
        big = pstr_big(ctx)
        for k_, (st_, o_) in enumerate(zip(ver, vsingle)):
            want = k_ < 6
            if (want or big) and o_ is not want:
                env.violation("%s returned %s (expected %s) for step %d of the instance-reuse battery on %s" % (st_[0], o_, want, k_, ctx), {"kind": "battery", "case": {"ctx": ctx, "op": st_[0], "args": st_[1]}})
        steps = pr + ver
        ref = single + vsingle
        for name, order in (("custom-base-first", list(range(len(steps)))), ("default-base-first", [1, 2, 6, 8, 0, 3, 4, 5, 7, 9, 10, 11, 12, 13]),
                            ("verify-first", [5, 6, 7, 8, 9, 10, 11, 12, 13, 0, 1, 2, 3, 4])):
            seq = [steps[i] for i in order]
            got = env.harness([{"ctx": ctx, "op": "seq", "args": [seq], "tag": "instance-reuse-" + name}])[0]
            if not isinstance(got, list) or got != [ref[i] for i in order]:
                bad = next((j for j, (a_, b_) in enumerate(zip(got, [ref[i] for i in order])) if a_ != b_), "?") if isinstance(got, list) else got
                env.violation("a Zkp value reused for a sequence of operations (%s) answers step %s (%s) differently from a fresh Zkp on %s"
                              % (name, bad, seq[bad][0] if isinstance(bad, int) else "?", ctx),
                              {"kind": "battery", "case": {"ctx": ctx, "op": "seq", "args": [seq[: (bad + 1) if isinstance(bad, int) else len(seq)]]},
                               "out": got[bad] if isinstance(bad, int) else got, "fresh_instance": ref[order[bad]] if isinstance(bad, int) else None})
                break
    fails = env.tie(items, "C06", shard=500)
    if fails:
        env.tie_violation("C06", fails)


def pstr_big(ctx):
    s_ = ctx.split(":")[1]
    return s_ == "2048" or int(s_) > 2 ** 60
