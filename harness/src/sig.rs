// Ed25519 wrapper operations (src/signature.rs = zebra frontend "z", src/signature2.rs = dalek
// frontend "d"), plus direct calls into the two underlying libraries as oracles ("raw_*").
use crate::vctx::*;
use serde_json::{json, Value};
use strand::rnd::StrandRng;
use strand::serialization::{StrandDeserialize, StrandSerialize};
use strand::signature as z;
use strand::signature2 as d;

macro_rules! frontend_ops {
    ($m:ident, $op:expr, $a:expr) => {{
        let a = $a;
        match $op {
            "gen" => {
                strand::rnd::verif::install(hex_in(&a[1]));
                let sk = $m::StrandSignatureSk::new(&mut StrandRng);
                let used = strand::rnd::verif::clear();
                let pk = $m::StrandSignaturePk::from(&sk);
                json!([
                    hex_out(&sk.strand_serialize().unwrap()),
                    hex_out(&pk.strand_serialize().unwrap()),
                    used
                ])
            }
            "sk_de" => match $m::StrandSignatureSk::strand_deserialize(&hex_in(&a[1])) {
                Err(_) => err(),
                Ok(sk) => {
                    let pk = $m::StrandSignaturePk::from(&sk);
                    json!([
                        hex_out(&sk.strand_serialize().unwrap()),
                        hex_out(&pk.strand_serialize().unwrap())
                    ])
                }
            },
            "pk_de" => match $m::StrandSignaturePk::strand_deserialize(&hex_in(&a[1])) {
                Err(_) => err(),
                Ok(pk) => hex_out(&pk.strand_serialize().unwrap()),
            },
            "sig_de" => match $m::StrandSignature::strand_deserialize(&hex_in(&a[1])) {
                Err(_) => err(),
                Ok(s) => hex_out(&s.strand_serialize().unwrap()),
            },
            "sign" => match $m::StrandSignatureSk::strand_deserialize(&hex_in(&a[1])) {
                Err(_) => err(),
                Ok(sk) => hex_out(&sk.sign(&hex_in(&a[2])).strand_serialize().unwrap()),
            },
            "verify" => {
                let pk = match $m::StrandSignaturePk::strand_deserialize(&hex_in(&a[1])) {
                    Err(_) => return json!("de_err_pk"),
                    Ok(pk) => pk,
                };
                let sg = match $m::StrandSignature::strand_deserialize(&hex_in(&a[2])) {
                    Err(_) => return json!("de_err_sig"),
                    Ok(s) => s,
                };
                json!(pk.verify(&sg, &hex_in(&a[3])).is_ok())
            }
            "to_string" => {
                let kind = a[1].as_str().unwrap();
                let b = hex_in(&a[2]);
                let r: Result<String, _> = match kind {
                    "sk" => match $m::StrandSignatureSk::strand_deserialize(&b) {
                        Err(_) => return err(),
                        Ok(v) => String::try_from(v),
                    },
                    "pk" => match $m::StrandSignaturePk::strand_deserialize(&b) {
                        Err(_) => return err(),
                        Ok(v) => String::try_from(v),
                    },
                    _ => match $m::StrandSignature::strand_deserialize(&b) {
                        Err(_) => return err(),
                        Ok(v) => String::try_from(v),
                    },
                };
                match r {
                    Ok(s) => json!(s),
                    Err(_) => err(),
                }
            }
            "from_string" => {
                let kind = a[1].as_str().unwrap();
                let s = a[2].as_str().unwrap().to_string();
                match kind {
                    "sk" => match $m::StrandSignatureSk::try_from(s) {
                        Err(_) => err(),
                        Ok(v) => hex_out(&v.strand_serialize().unwrap()),
                    },
                    "pk" => match $m::StrandSignaturePk::try_from(s) {
                        Err(_) => err(),
                        Ok(v) => hex_out(&v.strand_serialize().unwrap()),
                    },
                    _ => match $m::StrandSignature::try_from(s) {
                        Err(_) => err(),
                        Ok(v) => hex_out(&v.strand_serialize().unwrap()),
                    },
                }
            }
            _ => json!({"unknown_op": $op}),
        }
    }};
}

fn arr<const N: usize>(b: &[u8]) -> Option<[u8; N]> {
    if b.len() == N {
        let mut a = [0u8; N];
        a.copy_from_slice(b);
        Some(a)
    } else {
        None
    }
}

fn raw(op: &str, a: &[Value]) -> Value {
    let lib = a[0].as_str().unwrap();
    match (op, lib) {
        ("raw_pk", "z") => match arr::<32>(&hex_in(&a[1])) {
            None => err(),
            Some(k) => match ed25519_zebra::SigningKey::try_from(k) {
                Err(_) => err(),
                Ok(sk) => {
                    let pk: [u8; 32] = ed25519_zebra::VerificationKey::from(&sk).into();
                    hex_out(&pk)
                }
            },
        },
        ("raw_pk", "d") => match arr::<32>(&hex_in(&a[1])) {
            None => err(),
            Some(k) => {
                let sk = ed25519_dalek::SigningKey::from_bytes(&k);
                hex_out(&sk.verifying_key().to_bytes())
            }
        },
        ("raw_sign", "z") => match arr::<32>(&hex_in(&a[1])) {
            None => err(),
            Some(k) => match ed25519_zebra::SigningKey::try_from(k) {
                Err(_) => err(),
                Ok(sk) => {
                    let s: [u8; 64] = sk.sign(&hex_in(&a[2])).into();
                    hex_out(&s)
                }
            },
        },
        ("raw_sign", "d") => match arr::<32>(&hex_in(&a[1])) {
            None => err(),
            Some(k) => {
                use ed25519_dalek::Signer;
                let sk = ed25519_dalek::SigningKey::from_bytes(&k);
                hex_out(&sk.sign(&hex_in(&a[2])).to_bytes())
            }
        },
        ("raw_verify", "z") => {
            let pk = match arr::<32>(&hex_in(&a[1])).map(ed25519_zebra::VerificationKey::try_from) {
                Some(Ok(pk)) => pk,
                _ => return json!("de_err_pk"),
            };
            let sg = match arr::<64>(&hex_in(&a[2])).map(ed25519_zebra::Signature::try_from) {
                Some(Ok(s)) => s,
                _ => return json!("de_err_sig"),
            };
            json!(pk.verify(&sg, &hex_in(&a[3])).is_ok())
        }
        ("raw_verify", "d") => {
            use ed25519_dalek::Verifier;
            let pk = match arr::<32>(&hex_in(&a[1])).map(|k| ed25519_dalek::VerifyingKey::from_bytes(&k)) {
                Some(Ok(pk)) => pk,
                _ => return json!("de_err_pk"),
            };
            let sg = match arr::<64>(&hex_in(&a[2])) {
                Some(s) => ed25519_dalek::Signature::from_bytes(&s),
                None => return json!("de_err_sig"),
            };
            json!(pk.verify(&hex_in(&a[3]), &sg).is_ok())
        }
        _ => json!({"unknown_op": op}),
    }
}

pub fn run(op: &str, a: &[Value]) -> Value {
    if op.starts_with("raw_") {
        return raw(op, a);
    }
    let fe = a[0].as_str().unwrap().to_string();
    if fe == "z" {
        frontend_ops!(z, op, a)
    } else {
        frontend_ops!(d, op, a)
    }
}
