// Generic operation interpreter over any backend: one arm per API entry point of strand.
use crate::vctx::*;
use serde_json::{json, Value};
use strand::context::{Ctx, Element, Exponent};
use strand::elgamal::{Ciphertext, PrivateKey, PublicKey};
use strand::keymaker_verif as km;
use strand::rnd::verif as rng;
use strand::serialization::{
    StrandDeserialize, StrandSerialize, StrandVectorC, StrandVectorCP, StrandVectorE,
    StrandVectorP, StrandVectorX,
};
use strand::shuffler::{ShuffleProof, Shuffler};
use strand::threshold;
use strand::zkp::{ChaumPedersen, Schnorr, Zkp};

fn c_in<C: VCtx>(v: &Value) -> Ciphertext<C> {
    Ciphertext {
        mhr: C::e_in(&v[0]),
        gr: C::e_in(&v[1]),
    }
}
fn c_out<C: VCtx>(c: &Ciphertext<C>) -> Value {
    json!([C::e_out(&c.mhr), C::e_out(&c.gr)])
}
fn cs_in<C: VCtx>(v: &Value) -> Vec<Ciphertext<C>> {
    v.as_array().unwrap().iter().map(|x| c_in::<C>(x)).collect()
}
fn cs_out<C: VCtx>(cs: &[Ciphertext<C>]) -> Value {
    Value::Array(cs.iter().map(|c| c_out::<C>(c)).collect())
}
fn es_in<C: VCtx>(v: &Value) -> Vec<C::E> {
    v.as_array().unwrap().iter().map(|x| C::e_in(x)).collect()
}
fn es_out<C: VCtx>(es: &[C::E]) -> Value {
    Value::Array(es.iter().map(|e| C::e_out(e)).collect())
}
fn xs_in<C: VCtx>(v: &Value) -> Vec<C::X> {
    v.as_array().unwrap().iter().map(|x| C::x_in(x)).collect()
}
fn xs_out<C: VCtx>(xs: &[C::X]) -> Value {
    Value::Array(xs.iter().map(|x| C::x_out(x)).collect())
}
fn usizes_in(v: &Value) -> Vec<usize> {
    v.as_array().unwrap().iter().map(usize_in).collect()
}
fn opt_e_in<C: VCtx>(v: &Value) -> Option<C::E> {
    if v.is_null() {
        None
    } else {
        Some(C::e_in(v))
    }
}
fn schnorr_in<C: VCtx>(v: &Value) -> Schnorr<C> {
    Schnorr {
        commitment: C::e_in(&v[0]),
        challenge: C::x_in(&v[1]),
        response: C::x_in(&v[2]),
    }
}
fn schnorr_out<C: VCtx>(p: &Schnorr<C>) -> Value {
    json!([C::e_out(&p.commitment), C::x_out(&p.challenge), C::x_out(&p.response)])
}
fn cp_in<C: VCtx>(v: &Value) -> ChaumPedersen<C> {
    ChaumPedersen {
        commitment1: C::e_in(&v[0]),
        commitment2: C::e_in(&v[1]),
        challenge: C::x_in(&v[2]),
        response: C::x_in(&v[3]),
    }
}
fn cp_out<C: VCtx>(p: &ChaumPedersen<C>) -> Value {
    json!([
        C::e_out(&p.commitment1),
        C::e_out(&p.commitment2),
        C::x_out(&p.challenge),
        C::x_out(&p.response)
    ])
}
fn res<T, E2>(r: Result<T, E2>, f: impl FnOnce(T) -> Value) -> Value {
    match r {
        Ok(v) => f(v),
        Err(_) => err(),
    }
}

// learn the first k exponent draws the given script produces
fn learn<C: VCtx>(ctx: &C, script: &[u8], k: usize) -> Vec<C::X> {
    rng::install(script.to_vec());
    let v = (0..k).map(|_| ctx.rnd_exp()).collect();
    rng::clear();
    v
}

pub fn run<C: VCtx>(ctx: &C, op: &str, a: &[Value]) -> Value {
    let zkp = Zkp::new(ctx);
    // "seq": a list of [op, args] pairs executed one after the other on ONE Zkp value (state carried by an instance
    // must not change any answer); returns the list of results
    if op == "seq" {
        let steps = a[0].as_array().expect("seq: list of steps");
        return Value::Array(
            steps
                .iter()
                .map(|st| {
                    let name = st[0].as_str().expect("seq: op name");
                    let args = st[1].as_array().expect("seq: args");
                    run_with(ctx, &zkp, name, args)
                })
                .collect(),
        );
    }
    run_with(ctx, &zkp, op, a)
}

pub fn run_with<C: VCtx>(ctx: &C, zkp: &Zkp<C>, op: &str, a: &[Value]) -> Value {
    match op {
        // ---------- constants and arithmetic ----------
        "gen" => C::e_out(ctx.generator()),
        "one" => C::e_out(&C::E::mul_identity()),
        "emul" => C::e_out(&C::e_in(&a[0]).mul(&C::e_in(&a[1]))),
        "emulp" => C::e_out(&C::e_in(&a[0]).mul(&C::e_in(&a[1])).modp(ctx)),
        "emodp" => C::e_out(&C::e_in(&a[0]).modp(ctx)),
        "cmodulo" => C::e_out(&ctx.modulo(&C::e_in(&a[0]))),
        "einvp" => C::e_out(&C::e_in(&a[0]).invp(ctx)),
        "edivp" => C::e_out(&C::e_in(&a[0]).divp(&C::e_in(&a[1]), ctx)),
        "epow" => C::e_out(&ctx.emod_pow(&C::e_in(&a[0]), &C::x_in(&a[1]))),
        "gpow" => C::e_out(&ctx.gmod_pow(&C::x_in(&a[0]))),
        "eeq" => json!(C::e_in(&a[0]) == C::e_in(&a[1])),
        "xadd" => C::x_out(&C::x_in(&a[0]).add(&C::x_in(&a[1]))),
        "xsub" => C::x_out(&C::x_in(&a[0]).sub(&C::x_in(&a[1]))),
        "xmul" => C::x_out(&C::x_in(&a[0]).mul(&C::x_in(&a[1]))),
        "xmodq" => C::x_out(&C::x_in(&a[0]).modq(ctx)),
        "cexpmodulo" => C::x_out(&ctx.exp_modulo(&C::x_in(&a[0]))),
        "xinvq" => C::x_out(&C::x_in(&a[0]).invq(ctx)),
        "xdivq" => C::x_out(&C::x_in(&a[0]).divq(&C::x_in(&a[1]), ctx)),
        "xsubmod" => C::x_out(&C::x_in(&a[0]).sub_mod(&C::x_in(&a[1]), ctx)),
        "xfrom_u64" => C::x_out(&ctx.exp_from_u64(u64_in(&a[0]))),
        "xzero" => C::x_out(&C::X::add_identity()),
        "xone" => C::x_out(&C::X::mul_identity()),
        "hash_to_exp" => C::x_out(&ctx.hash_to_exp(&hex_in(&a[0]))),

        // ---------- plaintext encoding ----------
        "encode" => res(ctx.encode(&C::p_in(&a[0])), |e| C::e_out(&e)),
        "decode" => C::p_out(&ctx.decode(&C::e_in(&a[0]))),

        // ---------- element / exponent codecs ----------
        "e_from_bytes" => res(ctx.element_from_bytes(&hex_in(&a[0])), |e| C::e_out(&e)),
        "x_from_bytes" => res(ctx.exp_from_bytes(&hex_in(&a[0])), |x| C::x_out(&x)),
        "ser_e" => res(C::e_in(&a[0]).strand_serialize(), |b| hex_out(&b)),
        "de_e" => res(C::E::strand_deserialize(&hex_in(&a[0])), |e| C::e_out(&e)),
        "ser_x" => res(C::x_in(&a[0]).strand_serialize(), |b| hex_out(&b)),
        "de_x" => res(C::X::strand_deserialize(&hex_in(&a[0])), |x| C::x_out(&x)),
        "ser_p" => res(C::p_in(&a[0]).strand_serialize(), |b| hex_out(&b)),
        "de_p" => res(C::P::strand_deserialize(&hex_in(&a[0])), |p| C::p_out(&p)),
        "ser_c" => res(c_in::<C>(&a[0]).strand_serialize(), |b| hex_out(&b)),
        "de_c" => res(Ciphertext::<C>::strand_deserialize(&hex_in(&a[0])), |c| c_out(&c)),
        "ser_pk" => res(
            PublicKey::<C>::from_element(&C::e_in(&a[0]), ctx).strand_serialize(),
            |b| hex_out(&b),
        ),
        "de_pk" => res(PublicKey::<C>::strand_deserialize(&hex_in(&a[0])), |pk| {
            // the element is only reachable through the encoding again
            let b = pk.strand_serialize().unwrap();
            C::e_out(&C::E::strand_deserialize(&b).unwrap())
        }),
        "ser_sk" => res(
            PrivateKey::<C>::from(&C::x_in(&a[0]), ctx).strand_serialize(),
            |b| hex_out(&b),
        ),
        "de_sk" => res(PrivateKey::<C>::strand_deserialize(&hex_in(&a[0])), |sk| {
            let b = sk.strand_serialize().unwrap();
            json!([hex_out(&b), C::e_out(sk.pk_element())])
        }),
        "ser_schnorr" => res(schnorr_in::<C>(&a[0]).strand_serialize(), |b| hex_out(&b)),
        "de_schnorr" => res(Schnorr::<C>::strand_deserialize(&hex_in(&a[0])), |p| {
            schnorr_out(&p)
        }),
        "ser_cp" => res(cp_in::<C>(&a[0]).strand_serialize(), |b| hex_out(&b)),
        "de_cp" => res(ChaumPedersen::<C>::strand_deserialize(&hex_in(&a[0])), |p| cp_out(&p)),
        "ser_vec_e" => res(StrandVectorE::<C>(es_in::<C>(&a[0])).strand_serialize(), |b| {
            hex_out(&b)
        }),
        "de_vec_e" => res(StrandVectorE::<C>::strand_deserialize(&hex_in(&a[0])), |v| {
            es_out::<C>(&v.0)
        }),
        "ser_vec_x" => res(StrandVectorX::<C>(xs_in::<C>(&a[0])).strand_serialize(), |b| {
            hex_out(&b)
        }),
        "de_vec_x" => res(StrandVectorX::<C>::strand_deserialize(&hex_in(&a[0])), |v| {
            xs_out::<C>(&v.0)
        }),
        "ser_vec_c" => res(StrandVectorC::<C>(cs_in::<C>(&a[0])).strand_serialize(), |b| {
            hex_out(&b)
        }),
        "de_vec_c" => res(StrandVectorC::<C>::strand_deserialize(&hex_in(&a[0])), |v| {
            cs_out::<C>(&v.0)
        }),
        "ser_vec_p" => {
            let ps: Vec<C::P> = a[0].as_array().unwrap().iter().map(|x| C::p_in(x)).collect();
            res(StrandVectorP::<C>(ps).strand_serialize(), |b| hex_out(&b))
        }
        "de_vec_p" => res(StrandVectorP::<C>::strand_deserialize(&hex_in(&a[0])), |v| {
            Value::Array(v.0.iter().map(|p| C::p_out(p)).collect())
        }),
        "ser_vec_cp" => {
            let ps: Vec<ChaumPedersen<C>> =
                a[0].as_array().unwrap().iter().map(|x| cp_in::<C>(x)).collect();
            res(StrandVectorCP::<C>(ps).strand_serialize(), |b| hex_out(&b))
        }
        "de_vec_cp" => res(StrandVectorCP::<C>::strand_deserialize(&hex_in(&a[0])), |v| {
            Value::Array(v.0.iter().map(|p| cp_out(p)).collect())
        }),
        "de_proof" => res(ShuffleProof::<C>::strand_deserialize(&hex_in(&a[0])), |p| {
            hex_out(&p.strand_serialize().unwrap())
        }),
        "de_plain_vec_c" => res(Vec::<Ciphertext<C>>::strand_deserialize(&hex_in(&a[0])), |v| {
            cs_out::<C>(&v)
        }),

        // ---------- ElGamal ----------
        "encrypt_r" => {
            let pk = PublicKey::from_element(&C::e_in(&a[0]), ctx);
            c_out(&pk.encrypt_with_randomness(&C::e_in(&a[1]), &C::x_in(&a[2])))
        }
        "decrypt" => {
            let sk = PrivateKey::from(&C::x_in(&a[0]), ctx);
            C::e_out(&sk.decrypt(&c_in::<C>(&a[1])))
        }
        "pk_of_sk" => C::e_out(PrivateKey::from(&C::x_in(&a[0]), ctx).pk_element()),
        "decryption_factor" => {
            let sk = PrivateKey::from(&C::x_in(&a[0]), ctx);
            C::e_out(&sk.decryption_factor(&c_in::<C>(&a[1])))
        }
        "encrypt" => {
            let script = hex_in(&a[2]);
            let draws = learn(ctx, &script, 1);
            let pk = PublicKey::from_element(&C::e_in(&a[0]), ctx);
            rng::install(script);
            let c = pk.encrypt(&C::e_in(&a[1]));
            let used = rng::clear();
            json!([c_out(&c), xs_out::<C>(&draws), used])
        }
        "encrypt_exponential" => {
            let script = hex_in(&a[2]);
            let draws = learn(ctx, &script, 1);
            let pk = PublicKey::from_element(&C::e_in(&a[0]), ctx);
            rng::install(script);
            let c = pk.encrypt_exponential(&C::x_in(&a[1]));
            let used = rng::clear();
            json!([c_out(&c), xs_out::<C>(&draws), used])
        }
        "encrypt_and_pok" => {
            let script = hex_in(&a[3]);
            let draws = learn(ctx, &script, 2);
            let pk = PublicKey::from_element(&C::e_in(&a[0]), ctx);
            rng::install(script);
            let r = pk.encrypt_and_pok(&C::e_in(&a[1]), &hex_in(&a[2]));
            let used = rng::clear();
            res(r, |(c, proof, rr)| {
                json!([c_out(&c), schnorr_out(&proof), C::x_out(&rr), xs_out::<C>(&draws), used])
            })
        }
        "decrypt_and_prove" => {
            let script = hex_in(&a[3]);
            let draws = learn(ctx, &script, 1);
            let sk = PrivateKey::from(&C::x_in(&a[0]), ctx);
            rng::install(script);
            let r = sk.decrypt_and_prove(&c_in::<C>(&a[1]), &hex_in(&a[2]));
            let used = rng::clear();
            res(r, |(d, proof)| json!([C::e_out(&d), cp_out(&proof), xs_out::<C>(&draws), used]))
        }
        "encrypt_exp" => {
            let script = hex_in(&a[2]);
            let draws = learn(ctx, &script, 2);
            let pk = PublicKey::from_element(&C::e_in(&a[1]), ctx);
            rng::install(script);
            let r = ctx.encrypt_exp(&C::x_in(&a[0]), pk);
            let used = rng::clear();
            res(r, |b| json!([hex_out(&b), xs_out::<C>(&draws), used]))
        }
        "decrypt_exp" => {
            let sk = PrivateKey::from(&C::x_in(&a[1]), ctx);
            res(ctx.decrypt_exp(&hex_in(&a[0]), sk), |x| C::x_out(&x))
        }

        // ---------- sigma proofs ----------
        "schnorr_prove" => {
            let script = hex_in(&a[4]);
            let draws = learn(ctx, &script, 1);
            let g = opt_e_in::<C>(&a[2]);
            rng::install(script);
            let r = zkp.schnorr_prove(&C::x_in(&a[0]), &C::e_in(&a[1]), g.as_ref(), &hex_in(&a[3]));
            let used = rng::clear();
            res(r, |p| json!([schnorr_out(&p), xs_out::<C>(&draws), used]))
        }
        "schnorr_verify" => {
            let g = opt_e_in::<C>(&a[1]);
            json!(zkp.schnorr_verify(
                &C::e_in(&a[0]),
                g.as_ref(),
                &schnorr_in::<C>(&a[2]),
                &hex_in(&a[3])
            ))
        }
        "cp_prove" => {
            let script = hex_in(&a[6]);
            let draws = learn(ctx, &script, 1);
            let g1 = opt_e_in::<C>(&a[3]);
            rng::install(script);
            let r = zkp.cp_prove(
                &C::x_in(&a[0]),
                &C::e_in(&a[1]),
                &C::e_in(&a[2]),
                g1.as_ref(),
                &C::e_in(&a[4]),
                &hex_in(&a[5]),
            );
            let used = rng::clear();
            res(r, |p| json!([cp_out(&p), xs_out::<C>(&draws), used]))
        }
        "cp_verify" => {
            let g1 = opt_e_in::<C>(&a[2]);
            json!(zkp.cp_verify(
                &C::e_in(&a[0]),
                &C::e_in(&a[1]),
                g1.as_ref(),
                &C::e_in(&a[3]),
                &cp_in::<C>(&a[4]),
                &hex_in(&a[5])
            ))
        }
        "popk" => {
            let script = hex_in(&a[4]);
            let draws = learn(ctx, &script, 1);
            rng::install(script);
            let r = zkp.encryption_popk(
                &C::x_in(&a[0]),
                &C::e_in(&a[1]),
                &C::e_in(&a[2]),
                &hex_in(&a[3]),
            );
            let used = rng::clear();
            res(r, |p| json!([schnorr_out(&p), xs_out::<C>(&draws), used]))
        }
        "popk_verify" => res(
            zkp.encryption_popk_verify(
                &C::e_in(&a[0]),
                &C::e_in(&a[1]),
                &schnorr_in::<C>(&a[2]),
                &hex_in(&a[3]),
            ),
            |b| json!(b),
        ),
        "dec_proof" => {
            let script = hex_in(&a[6]);
            let draws = learn(ctx, &script, 1);
            rng::install(script);
            let r = zkp.decryption_proof(
                &C::x_in(&a[0]),
                &C::e_in(&a[1]),
                &C::e_in(&a[2]),
                &C::e_in(&a[3]),
                &C::e_in(&a[4]),
                &hex_in(&a[5]),
            );
            let used = rng::clear();
            res(r, |p| json!([cp_out(&p), xs_out::<C>(&draws), used]))
        }
        "verify_decryption" => res(
            zkp.verify_decryption(
                &C::e_in(&a[0]),
                &C::e_in(&a[1]),
                &C::e_in(&a[2]),
                &C::e_in(&a[3]),
                &cp_in::<C>(&a[4]),
                &hex_in(&a[5]),
            ),
            |b| json!(b),
        ),

        // ---------- shuffle ----------
        "generators" => es_out::<C>(&ctx.generators(usize_in(&a[0]), &hex_in(&a[1]))),
        // k threads ask for the same generators at the same moment (barrier), then the calling thread asks for twice as many:
        // [k, n, seed] -> [[list per thread...], longer list]
        "generators_threads" => {
            let k = usize_in(&a[0]);
            let n = usize_in(&a[1]);
            let seed = hex_in(&a[2]);
            let bar = std::sync::Barrier::new(k);
            let per: Vec<Value> = std::thread::scope(|sc| {
                let hs: Vec<_> = (0..k)
                    .map(|_| {
                        let (seed, bar) = (&seed, &bar);
                        sc.spawn(move || {
                            bar.wait();
                            es_out::<C>(&ctx.generators(n, seed))
                        })
                    })
                    .collect();
                hs.into_iter().map(|h| h.join().unwrap_or(json!("panic"))).collect()
            });
            json!([per, es_out::<C>(&ctx.generators(2 * n, &seed))])
        }
        "gen_permutation" => {
            rng::install(hex_in(&a[1]));
            let p = strand::shuffler::verif::gen_permutation(usize_in(&a[0]));
            let used = rng::clear();
            json!([p, used])
        }
        "gen_shuffle" => {
            let script = hex_in(&a[2]);
            let cs = cs_in::<C>(&a[1]);
            // learn: the permutation first, then one exponent per ciphertext
            rng::install(script.clone());
            let lperm = strand::shuffler::verif::gen_permutation(cs.len());
            let lrs: Vec<C::X> = (0..cs.len()).map(|_| ctx.rnd_exp()).collect();
            rng::clear();
            let pk = PublicKey::from_element(&C::e_in(&a[0]), ctx);
            let gens: Vec<C::E> = vec![];
            let sh = Shuffler::new(&pk, &gens, ctx);
            rng::install(script);
            let (out, rs, perm) = sh.gen_shuffle(&cs);
            let used = rng::clear();
            json!([cs_out::<C>(&out), xs_out::<C>(&rs), perm, lperm, xs_out::<C>(&lrs), used])
        }
        // ONE Shuffler value shuffling and proving a sequence of statements: [pk, gens, [[es, label, script_shuffle, script_proof], ...]]
        // -> per step [out, rs, perm, proof_bytes] (state kept by a prover instance must not change any answer)
        "shuffle_prove_seq" => {
            let pk = PublicKey::from_element(&C::e_in(&a[0]), ctx);
            let gens_all = es_in::<C>(&a[1]);
            let steps = a[2].as_array().expect("steps");
            let mut outv: Vec<Value> = vec![];
            // one Shuffler per distinct N (the generator list is part of the value), reused across steps of that N
            let n0 = cs_in::<C>(&steps[0][0]).len();
            let gens: Vec<C::E> = gens_all[..n0 + 1].to_vec();
            let sh = Shuffler::new(&pk, &gens, ctx);
            for st in steps {
                let es = cs_in::<C>(&st[0]);
                assert!(es.len() == n0);
                rng::install(hex_in(&st[2]));
                let (out, rs, perm) = sh.gen_shuffle(&es);
                rng::clear();
                rng::install(hex_in(&st[3]));
                let pr = sh.gen_proof(&es, &out, &rs, &perm, &hex_in(&st[1]));
                rng::clear();
                outv.push(match pr {
                    Ok(p) => json!([cs_out::<C>(&out), xs_out::<C>(&rs), perm, hex_out(&p.strand_serialize().unwrap())]),
                    Err(_) => json!("err"),
                });
            }
            Value::Array(outv)
        }
        "apply_permutation" => {
            let script = hex_in(&a[3]);
            let cs = cs_in::<C>(&a[2]);
            let draws = learn(ctx, &script, cs.len());
            let pk = PublicKey::from_element(&C::e_in(&a[0]), ctx);
            let gens: Vec<C::E> = vec![];
            let sh = Shuffler::new(&pk, &gens, ctx);
            rng::install(script);
            let (out, rs) = sh.apply_permutation(&usizes_in(&a[1]), &cs);
            let used = rng::clear();
            json!([cs_out::<C>(&out), xs_out::<C>(&rs), xs_out::<C>(&draws), used])
        }
        "gen_proof" => {
            // [pk, gens, es, e_primes, r_primes, perm, label, script]
            let script = hex_in(&a[7]);
            let es = cs_in::<C>(&a[2]);
            let n = es.len();
            let draws = learn(ctx, &script, 4 * n + 4);
            let pk = PublicKey::from_element(&C::e_in(&a[0]), ctx);
            let gens = es_in::<C>(&a[1]);
            let sh = Shuffler::new(&pk, &gens, ctx);
            rng::install(script);
            let r = sh.gen_proof(
                &es,
                &cs_in::<C>(&a[3]),
                &xs_in::<C>(&a[4]),
                &usizes_in(&a[5]),
                &hex_in(&a[6]),
            );
            let used = rng::clear();
            res(r, |p| json!([hex_out(&p.strand_serialize().unwrap()), xs_out::<C>(&draws), used]))
        }
        "check_proof" => {
            // [pk, gens, proof_bytes, es, e_primes, label]
            let pk = PublicKey::from_element(&C::e_in(&a[0]), ctx);
            let gens = es_in::<C>(&a[1]);
            let sh = Shuffler::new(&pk, &gens, ctx);
            match ShuffleProof::<C>::strand_deserialize(&hex_in(&a[2])) {
                Err(_) => json!("de_err"),
                Ok(proof) => res(
                    sh.check_proof(&proof, &cs_in::<C>(&a[3]), &cs_in::<C>(&a[4]), &hex_in(&a[5])),
                    |b| json!(b),
                ),
            }
        }
        // verifier with LOCALLY derived generators: [pk, seed, proof_bytes, es, e_primes, label] (N + 1 = es.len() + 1 generators)
        "check_proof_localgens" => {
            let pk = PublicKey::from_element(&C::e_in(&a[0]), ctx);
            let es = cs_in::<C>(&a[3]);
            let gens = ctx.generators(es.len() + 1, &hex_in(&a[1]));
            let sh = Shuffler::new(&pk, &gens, ctx);
            match ShuffleProof::<C>::strand_deserialize(&hex_in(&a[2])) {
                Err(_) => json!("de_err"),
                Ok(proof) => res(sh.check_proof(&proof, &es, &cs_in::<C>(&a[4]), &hex_in(&a[5])), |b| json!(b)),
            }
        }
        // ONE Shuffler value answering a sequence of verifications: [pk, gens, [[proof_bytes, es, e_primes, label], ...]]
        "check_proof_seq" => {
            let pk = PublicKey::from_element(&C::e_in(&a[0]), ctx);
            let gens = es_in::<C>(&a[1]);
            let sh = Shuffler::new(&pk, &gens, ctx);
            let steps = a[2].as_array().expect("steps");
            Value::Array(
                steps
                    .iter()
                    .map(|st| match ShuffleProof::<C>::strand_deserialize(&hex_in(&st[0])) {
                        Err(_) => json!("de_err"),
                        Ok(proof) => res(
                            sh.check_proof(&proof, &cs_in::<C>(&st[1]), &cs_in::<C>(&st[2]), &hex_in(&st[3])),
                            |b| json!(b),
                        ),
                    })
                    .collect(),
            )
        }
        "shuffle_us" => {
            // [pk, es, e_primes, cs, n, label]
            let pk = PublicKey::from_element(&C::e_in(&a[0]), ctx);
            let gens: Vec<C::E> = vec![];
            let sh = Shuffler::new(&pk, &gens, ctx);
            res(
                strand::shuffler::verif::us(
                    &sh,
                    &cs_in::<C>(&a[1]),
                    &cs_in::<C>(&a[2]),
                    &es_in::<C>(&a[3]),
                    usize_in(&a[4]),
                    &hex_in(&a[5]),
                ),
                |us| xs_out::<C>(&us),
            )
        }
        "shuffle_challenge" => {
            // [pk, es, e_primes, proof_bytes, label]
            let pk = PublicKey::from_element(&C::e_in(&a[0]), ctx);
            let gens: Vec<C::E> = vec![];
            let sh = Shuffler::new(&pk, &gens, ctx);
            match ShuffleProof::<C>::strand_deserialize(&hex_in(&a[3])) {
                Err(_) => json!("de_err"),
                Ok(proof) => res(
                    strand::shuffler::verif::challenge(
                        &sh,
                        &cs_in::<C>(&a[1]),
                        &cs_in::<C>(&a[2]),
                        &proof,
                        &hex_in(&a[4]),
                    ),
                    |c| C::x_out(&c),
                ),
            }
        }

        // ---------- n-of-n keymaker ----------
        "km_share" => {
            let script = hex_in(&a[2]);
            let draws = learn(ctx, &script, 1);
            let k = km::VKeymaker::from_sk(PrivateKey::from(&C::x_in(&a[0]), ctx), ctx);
            rng::install(script);
            let r = k.share(&hex_in(&a[1]));
            let used = rng::clear();
            res(r, |(pk, proof)| {
                let b = pk.strand_serialize().unwrap();
                let e = C::E::strand_deserialize(&b).unwrap();
                json!([C::e_out(&e), schnorr_out(&proof), xs_out::<C>(&draws), used])
            })
        }
        "km_verify_share" => {
            let pk = PublicKey::from_element(&C::e_in(&a[0]), ctx);
            json!(km::verify_share(ctx, &pk, &schnorr_in::<C>(&a[1]), &hex_in(&a[2])))
        }
        "combine_pks" => {
            let pks: Vec<PublicKey<C>> = es_in::<C>(&a[0])
                .iter()
                .map(|e| PublicKey::from_element(e, ctx))
                .collect();
            let pk = km::combine_pks(ctx, pks);
            let b = pk.strand_serialize().unwrap();
            // raw element (may be non-canonical only if inputs were): go through the public field-less API
            match C::E::strand_deserialize(&b) {
                Ok(e) => C::e_out(&e),
                Err(_) => hex_out(&b),
            }
        }
        "km_decryption_factor" => {
            let script = hex_in(&a[3]);
            let draws = learn(ctx, &script, 1);
            let k = km::VKeymaker::from_sk(PrivateKey::from(&C::x_in(&a[0]), ctx), ctx);
            rng::install(script);
            let r = k.decryption_factor(&c_in::<C>(&a[1]), &hex_in(&a[2]));
            let used = rng::clear();
            res(r, |(f, proof)| json!([C::e_out(&f), cp_out(&proof), xs_out::<C>(&draws), used]))
        }
        // ONE Keymaker value releasing factors for a sequence of ciphertexts (some repeated), under one RNG script:
        // [sk, [c...], label, script] -> [[factor, proof], ...]
        "km_factor_seq" => {
            let k = km::VKeymaker::from_sk(PrivateKey::from(&C::x_in(&a[0]), ctx), ctx);
            let cs = cs_in::<C>(&a[1]);
            let label = hex_in(&a[2]);
            rng::install(hex_in(&a[3]));
            let outv: Vec<Value> = cs
                .iter()
                .map(|c| match k.decryption_factor(c, &label) {
                    Ok((f, proof)) => json!([C::e_out(&f), cp_out(&proof)]),
                    Err(_) => json!("err"),
                })
                .collect();
            rng::clear();
            Value::Array(outv)
        }
        "km_decryption_factor_many" => {
            let script = hex_in(&a[3]);
            let cs = cs_in::<C>(&a[1]);
            let draws = learn(ctx, &script, cs.len());
            let k = km::VKeymaker::from_sk(PrivateKey::from(&C::x_in(&a[0]), ctx), ctx);
            rng::install(script);
            let r = k.decryption_factor_many(&cs, &hex_in(&a[2]));
            let used = rng::clear();
            res(r, |(fs, proofs)| {
                json!([
                    es_out::<C>(&fs),
                    Value::Array(proofs.iter().map(|p| cp_out(p)).collect()),
                    xs_out::<C>(&draws),
                    used
                ])
            })
        }
        "joint_dec" => C::e_out(&km::joint_dec(ctx, es_in::<C>(&a[0]), &c_in::<C>(&a[1]))),
        "joint_dec_many" => {
            let decs: Vec<Vec<C::E>> =
                a[0].as_array().unwrap().iter().map(|v| es_in::<C>(v)).collect();
            es_out::<C>(&km::joint_dec_many(ctx, &decs, &cs_in::<C>(&a[1])))
        }
        "verify_decryption_factors" => {
            let proofs: Vec<ChaumPedersen<C>> =
                a[3].as_array().unwrap().iter().map(|x| cp_in::<C>(x)).collect();
            res(
                km::verify_decryption_factors(
                    ctx,
                    &C::e_in(&a[0]),
                    &cs_in::<C>(&a[1]),
                    &es_in::<C>(&a[2]),
                    &proofs,
                    &hex_in(&a[4]),
                ),
                |b| json!(b),
            )
        }

        // ---------- threshold ----------
        "gen_coefficients" => {
            let script = hex_in(&a[1]);
            let t = usize_in(&a[0]);
            let draws = learn(ctx, &script, t);
            rng::install(script);
            let (cf, cm) = threshold::gen_coefficients(t, ctx);
            let used = rng::clear();
            json!([xs_out::<C>(&cf), es_out::<C>(&cm), xs_out::<C>(&draws), used])
        }
        "eval_poly" => C::x_out(&threshold::eval_poly(
            usize_in(&a[0]),
            usize_in(&a[1]),
            &xs_in::<C>(&a[2]),
            ctx,
        )),
        "compute_peer_share" => C::x_out(&threshold::compute_peer_share(
            usize_in(&a[0]),
            usize_in(&a[1]),
            &xs_in::<C>(&a[2]),
            ctx,
        )),
        "verification_key_factor" => C::e_out(&threshold::verification_key_factor(
            &es_in::<C>(&a[0]),
            usize_in(&a[1]),
            usize_in(&a[2]),
            ctx,
        )),
        "th_decryption_factor" => {
            let script = hex_in(&a[4]);
            let draws = learn(ctx, &script, 1);
            rng::install(script);
            let r = threshold::decryption_factor(
                &c_in::<C>(&a[0]),
                &C::x_in(&a[1]),
                &C::e_in(&a[2]),
                &hex_in(&a[3]),
                ctx.clone(),
            );
            let used = rng::clear();
            res(r, |(f, proof)| json!([C::e_out(&f), cp_out(&proof), xs_out::<C>(&draws), used]))
        }
        "lagrange" => C::x_out(&threshold::lagrange(usize_in(&a[0]), &usizes_in(&a[1]), ctx)),

        // ---------- samplers ----------
        "rnd_exp" => {
            rng::install(hex_in(&a[0]));
            let x = ctx.rnd_exp();
            let used = rng::clear();
            json!([C::x_out(&x), used])
        }
        "rnd" => {
            rng::install(hex_in(&a[0]));
            let e = ctx.rnd();
            let used = rng::clear();
            json!([C::e_out(&e), used])
        }
        "rnd_plaintext" => {
            rng::install(hex_in(&a[0]));
            let p = ctx.rnd_plaintext();
            let used = rng::clear();
            json!([C::p_out(&p), used])
        }
        // unscripted (OS entropy): freshness battery
        "fresh_encrypt" => {
            let pk = PublicKey::from_element(&C::e_in(&a[0]), ctx);
            let c1 = pk.encrypt(&C::e_in(&a[1]));
            let c2 = pk.encrypt(&C::e_in(&a[1]));
            json!([c_out(&c1), c_out(&c2)])
        }
        // OS entropy: one shuffle, two proofs of it, two Schnorr proofs by one secret
        "fresh_shuffle" => {
            let pk = PublicKey::from_element(&C::e_in(&a[0]), ctx);
            let es = cs_in::<C>(&a[1]);
            let gens = ctx.generators(es.len() + 1, b"fresh");
            let sh = Shuffler::new(&pk, &gens, ctx);
            let (out, rs, perm) = sh.gen_shuffle(&es);
            let p1 = sh.gen_proof(&es, &out, &rs, &perm, b"").unwrap();
            let p2 = sh.gen_proof(&es, &out, &rs, &perm, b"").unwrap();
            let x = C::x_in(&json!("5"));
            let s1 = zkp.schnorr_prove(&x, &ctx.gmod_pow(&x), None, b"").unwrap();
            let s2 = zkp.schnorr_prove(&x, &ctx.gmod_pow(&x), None, b"").unwrap();
            json!([
                cs_out::<C>(&out),
                xs_out::<C>(&rs),
                perm,
                [hex_out(&p1.strand_serialize().unwrap()), hex_out(&p2.strand_serialize().unwrap())],
                [schnorr_out(&s1), schnorr_out(&s2)]
            ])
        }
        // OS entropy: exponent transport twice (each call and, on ristretto, each half must use its own randomness)
        "fresh_encrypt_exp" => {
            let mk = || PublicKey::from_element(&C::e_in(&a[1]), ctx);
            let r1 = ctx.encrypt_exp(&C::x_in(&a[0]), mk());
            let r2 = ctx.encrypt_exp(&C::x_in(&a[0]), mk());
            match (r1, r2) {
                (Ok(b1), Ok(b2)) => json!([hex_out(&b1), hex_out(&b2)]),
                _ => json!("err"),
            }
        }
        // OS entropy: every kind of sigma proof twice by the same secret, from one Zkp value and from fresh ones;
        // returns the commitments in the order schnorr, schnorr, cp, cp, popk, popk, dec, dec, schnorr(new Zkp), cp(new Zkp)
        "fresh_sigma" => {
            let x = C::x_in(&a[0]);
            let y = ctx.gmod_pow(&x);
            let g2 = C::e_in(&a[1]);
            let y2 = ctx.emod_pow(&g2, &x);
            let mut coms: Vec<Value> = vec![];
            for _ in 0..2 {
                coms.push(C::e_out(&zkp.schnorr_prove(&x, &y, None, b"l").unwrap().commitment));
            }
            for _ in 0..2 {
                coms.push(C::e_out(&zkp.cp_prove(&x, &y, &y2, None, &g2, b"l").unwrap().commitment1));
            }
            for _ in 0..2 {
                coms.push(C::e_out(&zkp.encryption_popk(&x, &g2, &y, b"l").unwrap().commitment));
            }
            for _ in 0..2 {
                coms.push(C::e_out(&zkp.decryption_proof(&x, &y, &y2, &g2, &g2, b"l").unwrap().commitment1));
            }
            let z2 = Zkp::new(ctx);
            coms.push(C::e_out(&z2.schnorr_prove(&x, &y, None, b"l").unwrap().commitment));
            let z3 = Zkp::new(ctx);
            coms.push(C::e_out(&z3.cp_prove(&x, &y, &y2, None, &g2, b"l").unwrap().commitment1));
            json!(coms)
        }
        // OS entropy on SEVERAL threads of one process: every thread draws exponents, encrypts the same message under the
        // same key and proves knowledge of the same secret; returns per thread [exponents, ciphertext, schnorr commitment]
        "fresh_threads" => {
            let k = usize_in(&a[0]);
            let pk_e = C::e_in(&a[1]);
            let m = C::e_in(&a[2]);
            let x = C::x_in(&a[3]);
            let outs: Vec<Value> = std::thread::scope(|sc| {
                let hs: Vec<_> = (0..k)
                    .map(|_| {
                        let (pk_e, m, x) = (pk_e.clone(), m.clone(), x.clone());
                        sc.spawn(move || {
                            let xs: Vec<C::X> = (0..3).map(|_| ctx.rnd_exp()).collect();
                            let pk = PublicKey::from_element(&pk_e, ctx);
                            let c = pk.encrypt(&m);
                            let z = Zkp::new(ctx);
                            let s = z.schnorr_prove(&x, &ctx.gmod_pow(&x), None, b"t").unwrap();
                            json!([xs_out::<C>(&xs), c_out(&c), C::e_out(&s.commitment)])
                        })
                    })
                    .collect();
                hs.into_iter().map(|h| h.join().unwrap_or(json!("panic"))).collect()
            });
            json!(outs)
        }
        "fresh_rnd_exp" => {
            let n = usize_in(&a[0]);
            xs_out::<C>(&(0..n).map(|_| ctx.rnd_exp()).collect::<Vec<_>>())
        }
        // direct calls into curve25519-dalek (oracle for the ristretto codec: strand must add or lose nothing)
        "raw_point_valid" => {
            let b = hex_in(&a[0]);
            json!(curve25519_dalek::ristretto::CompressedRistretto::from_slice(&b)
                .ok()
                .and_then(|c| c.decompress())
                .is_some())
        }
        "raw_from_uniform" => {
            let b = hex_in(&a[0]);
            let mut x = [0u8; 64];
            x.copy_from_slice(&b);
            hex_out(
                curve25519_dalek::ristretto::RistrettoPoint::from_uniform_bytes(&x)
                    .compress()
                    .as_bytes(),
            )
        }
        "raw_scalar_canonical" => {
            let b = hex_in(&a[0]);
            if b.len() != 32 {
                json!(false)
            } else {
                let mut x = [0u8; 32];
                x.copy_from_slice(&b);
                let o: Option<curve25519_dalek::scalar::Scalar> =
                    curve25519_dalek::scalar::Scalar::from_canonical_bytes(x).into();
                json!(o.is_some())
            }
        }
        _ => json!({"unknown_op": op}),
    }
}
