// strand-harness: runs operations of the real `strand` crate (built from /repo's working tree with
// feature strand_verif) on inputs given as JSON lines, one result per line. Every call runs under
// catch_unwind; a panic is reported as "panic", a library error as "err".
mod alloc;
mod ops;
mod sig;
mod vctx;

#[global_allocator]
static GLOBAL: alloc::Counting = alloc::Counting;

use serde_json::{json, Value};
use std::io::{BufRead, Write};
use std::panic;

use strand::backend::malachite as ml;
use strand::backend::num_bigint as nb;
use strand::backend::ristretto as rs;

macro_rules! dispatch_small {
    ($p:expr, $flavor:ident, $op:expr, $args:expr, [$($n:literal),*]) => {
        match $p {
            $( $n => Some(ops::run(&$flavor::<$n>(), $op, $args)), )*
            _ => None,
        }
    };
}

fn bctx<const M: u64>() -> nb::BigintCtx<nb::verif::VP<M>> {
    Default::default()
}
fn mctx<const M: u64>() -> ml::MalachiteCtx<ml::verif::VP<M>> {
    Default::default()
}

fn run_case(ctx: &str, op: &str, args: &[Value]) -> Value {
    if ctx == "R" {
        return ops::run(&rs::RistrettoCtx, op, args);
    }
    if ctx == "S" {
        return sig::run(op, args);
    }
    let (fl, p) = ctx.split_once(':').expect("ctx format");
    if p == "2048" {
        return match fl {
            "B" => ops::run(&nb::BigintCtx::<nb::P2048>::default(), op, args),
            "M" => ops::run(&ml::MalachiteCtx::<ml::P2048>::default(), op, args),
            _ => panic!("unknown flavor"),
        };
    }
    let p: u64 = p.parse().expect("modulus");
    let r = match fl {
        "B" => dispatch_small!(
            p, bctx, op, args,
            [23, 47, 59, 83, 107, 167, 179, 227, 263, 2039, 65267, 3404364645881581367]
        ),
        "M" => dispatch_small!(
            p, mctx, op, args,
            [23, 47, 59, 83, 107, 167, 179, 227, 263, 2039, 65267, 3404364645881581367]
        ),
        _ => panic!("unknown flavor"),
    };
    r.expect("unknown parameter set")
}

fn main() {
    // silence the default panic message: panics are outcomes here
    panic::set_hook(Box::new(|_| {}));
    let stdin = std::io::stdin();
    let stdout = std::io::stdout();
    let mut out = std::io::BufWriter::new(stdout.lock());
    for line in stdin.lock().lines() {
        let line = line.unwrap();
        if line.trim().is_empty() {
            continue;
        }
        let v: Value = serde_json::from_str(&line).expect("json");
        let id = v["id"].clone();
        let ctx = v["ctx"].as_str().unwrap().to_string();
        let op = v["op"].as_str().unwrap().to_string();
        let args: Vec<Value> = v["args"].as_array().cloned().unwrap_or_default();
        // "peak:<op>" also reports the peak number of heap bytes requested while the op ran
        let (probe, op) = match op.strip_prefix("peak:") {
            Some(o) => (true, o.to_string()),
            None => (false, op),
        };
        let res = panic::catch_unwind(|| {
            if probe {
                let base = alloc::reset_peak();
                let v = run_case(&ctx, &op, &args);
                let peak = alloc::peak().saturating_sub(base);
                json!([v, peak])
            } else {
                run_case(&ctx, &op, &args)
            }
        });
        strand::rnd::verif::clear();
        let outv = match res {
            Ok(v) => v,
            Err(_) => json!("panic"),
        };
        writeln!(out, "{}", json!({"id": id, "out": outv})).unwrap();
        // flushed per case: when a later case aborts or hangs the process, the answers so far are not lost
        out.flush().unwrap();
    }
    out.flush().unwrap();
}
