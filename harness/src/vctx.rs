// Conversions between the JSON case format and the backend types, per backend.
// Integers travel as decimal strings, byte strings as "x:<hex>".
use serde_json::{json, Value};
use strand::backend::malachite as ml;
use strand::backend::num_bigint as nb;
use strand::backend::ristretto as rs;
use strand::context::Ctx;

pub fn hex_in(v: &Value) -> Vec<u8> {
    let s = v.as_str().expect("bytes value must be a string");
    let s = s.strip_prefix("x:").expect("bytes value must start with x:");
    hex::decode(s).expect("bad hex")
}
pub fn hex_out(b: &[u8]) -> Value {
    Value::String(format!("x:{}", hex::encode(b)))
}
pub fn dec_in(v: &Value) -> String {
    match v {
        Value::String(s) => s.clone(),
        Value::Number(n) => n.to_string(),
        _ => panic!("integer value expected, got {}", v),
    }
}
pub fn usize_in(v: &Value) -> usize {
    dec_in(v).parse().expect("usize")
}
pub fn u64_in(v: &Value) -> u64 {
    dec_in(v).parse().expect("u64")
}

pub trait VCtx: Ctx {
    fn e_in(v: &Value) -> Self::E;
    fn e_out(e: &Self::E) -> Value;
    fn x_in(v: &Value) -> Self::X;
    fn x_out(x: &Self::X) -> Value;
    fn p_in(v: &Value) -> Self::P;
    fn p_out(p: &Self::P) -> Value;
    fn name() -> String;
}

impl<P: nb::BigintCtxParams> VCtx for nb::BigintCtx<P> {
    fn e_in(v: &Value) -> Self::E {
        nb::verif::e_raw(dec_in(v).parse::<num_bigint::BigUint>().unwrap())
    }
    fn e_out(e: &Self::E) -> Value {
        Value::String(nb::verif::e_val(e).to_string())
    }
    fn x_in(v: &Value) -> Self::X {
        nb::verif::x_raw(dec_in(v).parse::<num_bigint::BigUint>().unwrap())
    }
    fn x_out(x: &Self::X) -> Value {
        Value::String(nb::verif::x_val(x).to_string())
    }
    fn p_in(v: &Value) -> Self::P {
        nb::verif::p_raw(dec_in(v).parse::<num_bigint::BigUint>().unwrap())
    }
    fn p_out(p: &Self::P) -> Value {
        Value::String(nb::verif::p_val(p).to_string())
    }
    fn name() -> String {
        "bigint".into()
    }
}

fn nat_in(v: &Value) -> malachite::Natural {
    use std::str::FromStr;
    malachite::Natural::from_str(&dec_in(v)).unwrap()
}

impl<P: ml::MalachiteCtxParams> VCtx for ml::MalachiteCtx<P> {
    fn e_in(v: &Value) -> Self::E {
        ml::verif::e_raw(nat_in(v))
    }
    fn e_out(e: &Self::E) -> Value {
        Value::String(ml::verif::e_val(e).to_string())
    }
    fn x_in(v: &Value) -> Self::X {
        ml::verif::x_raw(nat_in(v))
    }
    fn x_out(x: &Self::X) -> Value {
        Value::String(ml::verif::x_val(x).to_string())
    }
    fn p_in(v: &Value) -> Self::P {
        ml::verif::p_raw(nat_in(v))
    }
    fn p_out(p: &Self::P) -> Value {
        Value::String(ml::verif::p_val(p).to_string())
    }
    fn name() -> String {
        "malachite".into()
    }
}

// Ristretto: elements travel as 32 compressed bytes, scalars as decimal integers (canonical),
// plaintexts as 30 bytes.
impl VCtx for rs::RistrettoCtx {
    fn e_in(v: &Value) -> Self::E {
        let b = hex_in(v);
        let mut a = [0u8; 32];
        a.copy_from_slice(&b);
        rs::verif::e_raw(
            curve25519_dalek::ristretto::CompressedRistretto(a)
                .decompress()
                .expect("valid point"),
        )
    }
    fn e_out(e: &Self::E) -> Value {
        hex_out(rs::verif::e_val(e).compress().as_bytes())
    }
    fn x_in(v: &Value) -> Self::X {
        let n = dec_in(v).parse::<num_bigint::BigUint>().unwrap();
        let mut b = n.to_bytes_le();
        b.resize(32, 0);
        let mut a = [0u8; 32];
        a.copy_from_slice(&b);
        rs::verif::x_raw(curve25519_dalek::scalar::Scalar::from_bytes_mod_order(a))
    }
    fn x_out(x: &Self::X) -> Value {
        Value::String(
            num_bigint::BigUint::from_bytes_le(rs::verif::x_val(x).as_bytes()).to_string(),
        )
    }
    fn p_in(v: &Value) -> Self::P {
        let b = hex_in(v);
        let mut a = [0u8; 30];
        a.copy_from_slice(&b);
        a
    }
    fn p_out(p: &Self::P) -> Value {
        hex_out(p)
    }
    fn name() -> String {
        "ristretto".into()
    }
}

pub fn ok(v: Value) -> Value {
    v
}
pub fn err() -> Value {
    json!("err")
}
