// Counting global allocator: tracks live and peak heap bytes so that checks can bound the memory a
// decoder requests for a given input.
use std::alloc::{GlobalAlloc, Layout, System};
use std::sync::atomic::{AtomicUsize, Ordering};

pub struct Counting;

static LIVE: AtomicUsize = AtomicUsize::new(0);
static PEAK: AtomicUsize = AtomicUsize::new(0);

unsafe impl GlobalAlloc for Counting {
    unsafe fn alloc(&self, layout: Layout) -> *mut u8 {
        let p = System.alloc(layout);
        if !p.is_null() {
            let live = LIVE.fetch_add(layout.size(), Ordering::Relaxed) + layout.size();
            PEAK.fetch_max(live, Ordering::Relaxed);
        }
        p
    }
    unsafe fn dealloc(&self, ptr: *mut u8, layout: Layout) {
        LIVE.fetch_sub(layout.size(), Ordering::Relaxed);
        System.dealloc(ptr, layout)
    }
    unsafe fn realloc(&self, ptr: *mut u8, layout: Layout, new_size: usize) -> *mut u8 {
        let p = System.realloc(ptr, layout, new_size);
        if !p.is_null() {
            if new_size >= layout.size() {
                let live = LIVE.fetch_add(new_size - layout.size(), Ordering::Relaxed) + (new_size - layout.size());
                PEAK.fetch_max(live, Ordering::Relaxed);
            } else {
                LIVE.fetch_sub(layout.size() - new_size, Ordering::Relaxed);
            }
        }
        p
    }
}

/// Sets the peak to the current live size and returns it.
pub fn reset_peak() -> usize {
    let live = LIVE.load(Ordering::Relaxed);
    PEAK.store(live, Ordering::Relaxed);
    live
}
pub fn peak() -> usize {
    PEAK.load(Ordering::Relaxed)
}
